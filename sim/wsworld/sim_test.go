package wsworld

import (
	"testing"

	"verif/sim/simcore"
)

func TestSim(t *testing.T) {
	simcore.WorkerMain(t, "wsworld", Run)
}
