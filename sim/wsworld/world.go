// Package wsworld simulates statedb.WatchSet.Wait under a fake clock: a closer
// closes a seeded subset of the member channels at seeded virtual instants
// (before the call, during the wait, inside the settle window, exactly at its
// end), the context is cancelled or times out at a seeded instant or never,
// and Wait is called repeatedly on the same set with members added in between.
package wsworld

import (
	"context"
	"fmt"
	"runtime"
	"sort"
	"strings"
	"testing"
	"time"

	"github.com/cilium/statedb"

	"verif/sim/simcore"
)

const never = time.Duration(1<<62 - 1)

type call struct {
	start    time.Duration // offset at which Wait is invoked
	settle   time.Duration
	ctxKind  int           // 0 never ends (only if something closes), 1 cancel, 2 deadline
	ctxEnd   time.Duration // absolute offset at which the context ends
	addFirst []int         // channels added right before the call
	viaMerge bool          // ... through a second set that is merged in
	clear    bool          // the set is cleared first (before adding)
}

// Run executes one run of wsworld.
func Run(t *testing.T, prop, tier string, c *simcore.Choices, full bool) *simcore.RunResult {
	res := &simcore.RunResult{Probes: map[string]int{}, Faults: map[string]int{}}
	r := simcore.NewRecorder(full)

	if c.Choose(6) == 0 {
		runConcurrent(prop, c, res, r)
		res.Log = r.Log
		res.LogHash = r.Hash()
		res.Violation = r.Violation()
		res.Choices = c.Trace
		return res
	}

	// ---- plan, drawn before entering the bubble ----
	n := c.Choose(13)
	unit := []time.Duration{time.Microsecond, time.Millisecond, 10 * time.Millisecond}[c.Choose(3)]
	closeAt := make([]time.Duration, n)
	for i := range closeAt {
		if c.Choose(3) == 0 {
			closeAt[i] = never
		} else {
			// distinct instants: slot*unit + i ns
			closeAt[i] = time.Duration(c.Choose(400))*unit + time.Duration(i+1)
		}
	}
	nCalls := 1 + c.Choose(3)
	var calls []call
	inSet := make([]bool, n)
	at := time.Duration(0)
	tie := false
	for k := 0; k < nCalls; k++ {
		cl := call{}
		at += time.Duration(c.Choose(150))*unit + 500
		cl.start = at
		if k > 0 && c.Choose(8) == 0 {
			cl.clear = true
			for i := range inSet {
				inSet[i] = false
			}
		}
		for i := 0; i < n; i++ {
			if !inSet[i] && c.Choose(2) == 0 {
				cl.addFirst = append(cl.addFirst, i)
				inSet[i] = true
			}
		}
		cl.viaMerge = c.Choose(4) == 0
		if c.Choose(3) != 0 {
			cl.settle = time.Duration(1+c.Choose(100)) * unit
		}
		cl.ctxKind = c.Choose(3)
		cl.ctxEnd = never
		if cl.ctxKind != 0 {
			cl.ctxEnd = cl.start + time.Duration(c.Choose(300))*unit + 700
		}
		// deliberate tie: a member closes exactly at the end of the settle window of the first close
		if cl.settle > 0 && c.Choose(10) == 0 {
			first := never
			for i := 0; i < n; i++ {
				if inSet[i] && closeAt[i] < first {
					first = closeAt[i]
				}
			}
			if first != never && first > cl.start {
				for i := 0; i < n; i++ {
					if inSet[i] && closeAt[i] > first+cl.settle {
						closeAt[i] = first + cl.settle
						tie = true
						break
					}
				}
			}
		}
		calls = append(calls, cl)
		// a call may take until its context ends or the settle window closes; the next call starts after
		end := cl.start
		if cl.ctxEnd != never {
			end = cl.ctxEnd
		}
		for i := 0; i < n; i++ {
			if inSet[i] && closeAt[i] != never && closeAt[i]+cl.settle > end {
				end = closeAt[i] + cl.settle
			}
		}
		at = end + 1000
	}
	res.Desc = fmt.Sprintf("prop=%s channels=%d calls=%d unit=%v tie=%v", prop, n, nCalls, unit, tie)

	_, perr := simcore.InBubble(t, func() {
		start := time.Now()
		now := func() time.Duration { return time.Since(start) }
		chans := make([]chan struct{}, n)
		ro := make([]<-chan struct{}, n)
		idx := map[<-chan struct{}]int{}
		for i := range chans {
			chans[i] = make(chan struct{})
			ro[i] = chans[i]
			idx[ro[i]] = i
		}
		// closer
		order := make([]int, 0, n)
		for i := range closeAt {
			if closeAt[i] != never {
				order = append(order, i)
			}
		}
		sort.Slice(order, func(a, b int) bool { return closeAt[order[a]] < closeAt[order[b]] })
		done := make(chan struct{})
		go func() {
			defer close(done)
			for _, i := range order {
				if d := closeAt[i] - now(); d > 0 {
					time.Sleep(d)
				}
				close(chans[i])
				res.Faults["member-closed"]++
			}
		}()

		ws := statedb.NewWatchSet()
		members := map[int]bool{}
		for k, cl := range calls {
			if d := cl.start - now(); d > 0 {
				time.Sleep(d)
			}
			if cl.clear {
				ws.Clear()
				members = map[int]bool{}
				res.Probes["set-cleared"]++
			}
			if cl.viaMerge {
				other := statedb.NewWatchSet()
				for _, i := range cl.addFirst {
					other.Add(ro[i])
				}
				ws.Merge(other)
				res.Probes["members-merged-in"]++
			} else {
				for _, i := range cl.addFirst {
					ws.Add(ro[i])
				}
			}
			for _, i := range cl.addFirst {
				members[i] = true
			}
			tCall := now()
			ctx := context.Background()
			var cancel context.CancelFunc = func() {}
			switch cl.ctxKind {
			case 1:
				ctx, cancel = context.WithCancel(ctx)
				d := cl.ctxEnd - tCall
				if d <= 0 {
					cancel()
				} else {
					timer := time.AfterFunc(d, cancel)
					defer timer.Stop()
				}
			case 2:
				ctx, cancel = context.WithTimeout(ctx, cl.ctxEnd-tCall)
			}
			ctxEnd := cl.ctxEnd
			if ctxEnd != never && ctxEnd < tCall {
				ctxEnd = tCall
			}
			// first instant >= tCall at which a member is closed
			first := never
			for i := range members {
				if closeAt[i] < first {
					first = closeAt[i]
				}
			}
			if first < tCall {
				first = tCall
			}
			if first == never && ctxEnd == never {
				// would block forever: not a legal scenario to ask for
				cancel()
				r.Logf("call %d skipped (nothing would ever wake it)", k)
				continue
			}
			got, err := ws.Wait(ctx, cl.settle)
			tRet := now()
			ctxErrNow := ctx.Err()
			cancel()

			var gi []int
			dup := false
			seen := map[int]bool{}
			foreign := false
			for _, ch := range got {
				i, ok := idx[ch]
				if !ok {
					foreign = true
					continue
				}
				if seen[i] {
					dup = true
				}
				seen[i] = true
				gi = append(gi, i)
			}
			sort.Ints(gi)
			multiReady := 0
			for i := range members {
				if closeAt[i] <= first {
					multiReady++
				}
			}
			coin := cl.settle == 0 && (multiReady > 1 || ctxEnd <= first)
			if coin {
				res.Probes["runtime-coin-exposed"]++
				r.Logf("call %d at %v settle=%v ctxEnd=%v -> %d channel(s) (choice among ready cases left to the runtime), err=%v at %v", k, tCall, cl.settle, fmtD(cl.ctxEnd), len(gi), err != nil, tRet)
			} else {
				r.Logf("call %d at %v settle=%v ctxEnd=%v members=%v -> %v err=%v at %v", k, tCall, cl.settle, fmtD(cl.ctxEnd), keys(members), gi, err, tRet)
			}
			res.Progress++

			bad := func(oracle, format string, args ...any) {
				r.Violate("C20", oracle, "call %d (members %v, close times %s, settle %v, context ends %v, invoked at %v, returned %v err=%v at %v): %s",
					k, keys(members), fmtTimes(closeAt, members), cl.settle, fmtD(cl.ctxEnd), tCall, gi, err, tRet, fmt.Sprintf(format, args...))
			}
			// --- result is a set of closed members ---
			if foreign {
				bad("foreign-channel", "returned a channel that was never added")
				return
			}
			if dup {
				bad("duplicate", "returned a channel twice")
				return
			}
			for _, i := range gi {
				if !members[i] {
					bad("not-a-member", "returned channel %d which is not in the set", i)
					return
				}
				if closeAt[i] > tRet {
					bad("not-closed", "returned channel %d which is not closed", i)
					return
				}
			}
			// --- set afterwards = set before minus returned ---
			for i := 0; i < n; i++ {
				want := members[i] && !seen[i]
				if ws.Has(ro[i]) != want {
					bad("set-after", "afterwards Has(channel %d)=%v, want %v", i, !want, want)
					return
				}
			}
			for _, i := range gi {
				delete(members, i)
			}
			// --- when and why it returned ---
			switch {
			case len(gi) == 0:
				res.Probes["returned-on-context"]++
				if err == nil {
					bad("empty-without-error", "returned no channel and no error")
					return
				}
				if ctxErrNow == nil || err != ctxErrNow {
					bad("wrong-error", "returned error %v, the context's error is %v", err, ctxErrNow)
					return
				}
				if tRet != ctxEnd {
					bad("context-timing", "returned without result at %v, the context ended at %v", tRet, ctxEnd)
					return
				}
				if first < ctxEnd {
					bad("missed-close", "returned with the context's error although a member was closed at %v, before the context ended", first)
					return
				}
			case cl.settle == 0:
				res.Probes["returned-immediately"]++
				if tRet != first {
					bad("timing", "returned at %v, the first member was closed at %v", tRet, first)
					return
				}
				if err != nil && (ctxErrNow == nil || err != ctxErrNow) {
					bad("wrong-error", "returned error %v, the context's error is %v", err, ctxErrNow)
					return
				}
				if err != nil && ctxEnd > tRet {
					bad("wrong-error", "returned error %v although the context had not ended", err)
					return
				}
			default:
				res.Probes["returned-after-settle"]++
				if tRet < first || tRet > first+cl.settle {
					bad("timing", "returned at %v, outside [first close %v, first close + settle %v]", tRet, first, first+cl.settle)
					return
				}
				if ctxEnd > tRet && tRet != first+cl.settle {
					bad("settle-cut-short", "returned at %v before the settle window ended at %v although the context had not ended", tRet, first+cl.settle)
					return
				}
				for i := range members {
					// once the context has ended the gathering loop may stop at any point
					if ctxEnd <= tRet {
						break
					}
					if closeAt[i] < tRet {
						bad("not-gathered", "member %d was closed at %v, before the return, but was neither returned nor removed", i, closeAt[i])
						return
					}
				}
				if ctxEnd <= tRet {
					res.Probes["context-ended-inside-settle"]++
					if ctxEnd < tRet && (err == nil || err != ctxErrNow) {
						bad("wrong-error", "the context ended inside the settle window but the error is %v", err)
						return
					}
				} else if err != nil {
					bad("wrong-error", "returned error %v although the context had not ended", err)
					return
				}
			}
		}
		<-done
	})
	if perr != nil {
		res.Harness = fmt.Sprint(perr)
	}
	res.Log = r.Log
	res.LogHash = r.Hash()
	res.Stats.Steps = len(calls)
	res.Violation = r.Violation()
	res.Choices = c.Trace
	return res
}

func keys(m map[int]bool) []int {
	var out []int
	for k := range m {
		out = append(out, k)
	}
	sort.Ints(out)
	return out
}

func fmtD(d time.Duration) string {
	if d == never {
		return "never"
	}
	return d.String()
}

func fmtTimes(closeAt []time.Duration, members map[int]bool) string {
	var parts []string
	for _, i := range keys(members) {
		parts = append(parts, fmt.Sprintf("%d@%s", i, fmtD(closeAt[i])))
	}
	return strings.Join(parts, ",")
}

// runConcurrent lets several goroutines call Wait on one set at the same time (settle time 0, no timers, so
// no clock is involved and the scenario runs on plain goroutines). Members are closed in batches while the
// waiters are parked; at the end every context is cancelled. Whatever the interleaving: every returned
// channel is a closed member, no channel is returned twice, a call without error returned something, an
// error is the context's, and afterwards the set holds exactly the members that were never returned.
func runConcurrent(prop string, c *simcore.Choices, res *simcore.RunResult, r *simcore.Recorder) {
	n := 2 + c.Choose(6)
	nw := 2 + c.Choose(2)
	nb := 1 + c.Choose(3)
	batches := make([][]int, nb)
	left := make([]int, n)
	for i := range left {
		left[i] = i
	}
	for b := range batches {
		for k := 0; k < len(left); {
			if c.Choose(3) == 0 {
				batches[b] = append(batches[b], left[k])
				left = append(left[:k], left[k+1:]...)
			} else {
				k++
			}
		}
	}
	yields := make([]int, nb+1)
	for i := range yields {
		yields[i] = 20 + c.Choose(200)
	}
	res.Desc = fmt.Sprintf("prop=%s concurrent waiters=%d channels=%d batches=%v", prop, nw, n, batches)
	r.Logf("concurrent: %d waiters, %d channels, close batches %v", nw, n, batches)
	res.Probes["concurrent-waiters"]++

	chans := make([]chan struct{}, n)
	ro := make([]<-chan struct{}, n)
	idx := map[<-chan struct{}]int{}
	ws := statedb.NewWatchSet()
	for i := range chans {
		chans[i] = make(chan struct{})
		ro[i] = chans[i]
		idx[ro[i]] = i
		ws.Add(ro[i])
	}
	type outcome struct {
		got     []<-chan struct{}
		open    []int // returned although not closed at the return
		err     error
		ctxErr  error
		waiter  int
		foreign bool
	}
	out := make(chan outcome, nw)
	cancels := make([]context.CancelFunc, nw)
	for w := 0; w < nw; w++ {
		ctx, cancel := context.WithCancel(context.Background())
		cancels[w] = cancel
		go func(w int) {
			got, err := ws.Wait(ctx, 0)
			o := outcome{got: got, err: err, ctxErr: ctx.Err(), waiter: w}
			for _, ch := range got {
				i, ok := idx[ch]
				if !ok {
					o.foreign = true
					continue
				}
				select {
				case <-ch:
				default:
					o.open = append(o.open, i)
				}
			}
			out <- o
		}(w)
	}
	spin := func(k int) {
		for i := 0; i < k; i++ {
			runtime.Gosched()
		}
	}
	spin(yields[0])
	for b, batch := range batches {
		for _, i := range batch {
			close(chans[i])
			res.Faults["member-closed"]++
		}
		spin(yields[b+1])
	}
	for _, cancel := range cancels {
		cancel()
	}
	returned := map[int]int{}
	var outs []outcome
	for w := 0; w < nw; w++ {
		outs = append(outs, <-out)
	}
	res.Progress += nw
	res.Stats.Steps = nw
	for _, o := range outs {
		desc := func() string {
			var gi []int
			for _, ch := range o.got {
				gi = append(gi, idx[ch])
			}
			sort.Ints(gi)
			return fmt.Sprintf("concurrent Wait of waiter %d (of %d; %d channels, close batches %v) returned %v err=%v", o.waiter, nw, n, batches, gi, o.err)
		}
		switch {
		case o.foreign:
			r.Violate("C20", "foreign-channel", "%s: a channel that was never added", desc())
			return
		case len(o.open) > 0:
			r.Violate("C20", "not-closed", "%s: channel %d is not closed", desc(), o.open[0])
			return
		case o.err == nil && len(o.got) == 0:
			r.Violate("C20", "empty-without-error", "%s: no channel and no error", desc())
			return
		case o.err != nil && o.err != o.ctxErr:
			r.Violate("C20", "wrong-error", "%s: the context's error is %v", desc(), o.ctxErr)
			return
		}
		for _, ch := range o.got {
			returned[idx[ch]]++
			if returned[idx[ch]] > 1 {
				r.Violate("C20", "duplicate", "%s: channel %d was already returned by an earlier or concurrent call", desc(), idx[ch])
				return
			}
		}
	}
	for i := 0; i < n; i++ {
		want := returned[i] == 0
		if ws.Has(ro[i]) != want {
			r.Violate("C20", "set-after", "after %d concurrent Wait calls (close batches %v) Has(channel %d)=%v, want %v (returned %d times)", nw, batches, i, !want, want, returned[i])
			return
		}
	}
	if len(returned) > 0 {
		res.Probes["concurrent-returned-channels"]++
	}
}
