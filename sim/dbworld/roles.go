package dbworld

import (
	"fmt"
	"iter"
	"time"

	"github.com/cilium/statedb"

	"verif/sim/simcore"
)

// writeOpKind performs one write operation of a fixed kind.
func (w *World) writeOpKind(t *simcore.Task, wt *WTxn, kind int) bool {
	saved := w.P.OpWeights
	var only [numOps]int
	only[kind] = 1
	w.P.OpWeights = only
	ok := w.writeOp(t, wt)
	w.P.OpWeights = saved
	return ok && !w.S.Failed()
}

// commitRet commits and returns the bound snapshot returned by Commit.
func (w *World) commitRet(t *simcore.Task, wt *WTxn) (statedb.ReadTxn, *Snap) {
	w.commit(t, wt)
	if w.S.Failed() || wt.result == nil {
		return nil, nil
	}
	return wt.result.txn, wt.result
}

// readerTask takes snapshots, retains some of them and re-checks retained ones later (C01).
func (w *World) readerTask(t *simcore.Task) {
	c := w.C
	p := w.P
	n := c.Range(p.ReadsMin, p.ReadsMax)
	for i := 0; i < n; i++ {
		t.Step("read")
		if w.S.Failed() {
			return
		}
		switch c.Weighted([]int{3, p.RetainWeight, p.RetainWeight}) {
		case 0:
			rtxn := w.db.ReadTxn()
			sn := w.bind(rtxn, "reader snapshot", nil)
			if sn == nil {
				return
			}
			w.progress++
			ti := c.Choose(len(sn.states))
			if sn.states[ti] == nil {
				continue
			}
			if !w.checkTable(p.ReadProp, rtxn, w.tables[ti], sn.states[ti], p.BatteryQueries, "fresh snapshot") {
				return
			}
			if p.InitCheck && !w.checkInit(rtxn, ti, sn.states[ti], "fresh snapshot") {
				return
			}
			if p.GraveyardCheck && !w.checkGraveyardBound("C08", rtxn, ti, sn.states[ti]) {
				return
			}
			if p.RetainWeight > 0 && c.Choose(2) == 0 {
				w.retain(sn)
			}
		case 1:
			if len(w.snaps) == 0 {
				continue
			}
			sn := w.snaps[c.Choose(len(w.snaps))]
			if !w.recheck(sn, p.BatteryQueries) {
				return
			}
		case 2:
			if len(w.snaps) == 0 {
				continue
			}
			sn := w.snaps[c.Choose(len(w.snaps))]
			if !w.pullSome(sn) {
				return
			}
		}
	}
}

func (w *World) retain(sn *Snap) {
	for ti, st := range sn.states {
		if st == nil {
			continue
		}
		rec, ok := w.recordAnswers("C01", sn.txn, ti, st, w.P.BatteryQueries)
		if !ok {
			return
		}
		sn.recorded = append(sn.recorded, rec...)
	}
	if len(w.snaps) >= 8 {
		i := w.C.Choose(len(w.snaps))
		w.dropSnap(w.snaps[i])
		w.snaps[i] = sn
	} else {
		w.snaps = append(w.snaps, sn)
	}
	w.probe("snapshot-retained")
}

func (w *World) dropSnap(sn *Snap) {
	for _, pl := range sn.pulls {
		pl.stop()
	}
	sn.pulls = nil
}

// recheck re-runs the query battery on a retained snapshot: it must answer exactly as when it was taken (C01).
func (w *World) recheck(sn *Snap, nQueries int) bool {
	age := 0
	for ti, st := range sn.states {
		if st == nil {
			continue
		}
		age += w.tables[ti].M.last().Idx - st.Idx
	}
	if !w.sameAnswers("C01", "snapshot-changed", sn.txn, sn.recorded, fmt.Sprintf("retained %v re-read %d table versions later", sn, age)) {
		return false
	}
	if age > 0 {
		w.probe("retained-snapshot-rechecked-after-commits")
	}
	// finish half-consumed iterators
	for _, pl := range sn.pulls {
		if !w.finishPull(sn, pl) {
			return false
		}
	}
	sn.pulls = nil
	w.progress++
	return true
}

// pullSome starts a query sequence on a retained snapshot and consumes only part of it.
func (w *World) pullSome(sn *Snap) bool {
	c := w.C
	if len(sn.pulls) >= 3 {
		return true
	}
	ti := c.Choose(len(sn.states))
	st := sn.states[ti]
	if st == nil {
		return true
	}
	tc := w.tables[ti]
	qs := w.candidateQueries(tc, st)
	q := qs[c.Choose(len(qs))]
	if q.Q == QGet {
		return true
	}
	// the expectation is what the same query answers right now on this snapshot (real vs. real)
	var want []MObj
	if !w.guard("C01", q.String(), func() { want, _ = realQuery(tc, sn.txn, q, 0) }) {
		return false
	}
	if len(want) < 2 {
		return true
	}
	var seq iter.Seq2[*Obj, statedb.Revision]
	if !w.guard("C01", q.String(), func() { seq = realSeq(tc, sn.txn, q) }) {
		return false
	}
	next, stop := iter.Pull2(seq)
	pl := &pulled{ti: ti, q: q, next: next, stop: stop, expect: want}
	k := 1 + c.Choose(len(want)-1)
	for i := 0; i < k; i++ {
		o, r, ok := next()
		if !ok {
			break
		}
		if pl.taken >= len(want) || want[pl.taken].Rev != r || !objEqual(want[pl.taken].O, o) {
			stop()
			w.violate("C01", "half-consumed-iterator", "retained %v: %v yields %v@%d at position %d, the same query just answered %s", sn, q, o, r, pl.taken, fmtRes(want))
			return false
		}
		pl.taken++
	}
	sn.pulls = append(sn.pulls, pl)
	w.probe("iterator-half-consumed")
	return true
}

func (w *World) finishPull(sn *Snap, pl *pulled) bool {
	defer pl.stop()
	for {
		var o *Obj
		var r statedb.Revision
		var ok bool
		if !w.guard("C01", "resuming "+pl.q.String(), func() { o, r, ok = pl.next() }) {
			return false
		}
		if !ok {
			break
		}
		if pl.taken >= len(pl.expect) || pl.expect[pl.taken].Rev != r || !objEqual(pl.expect[pl.taken].O, o) {
			w.violate("C01", "half-consumed-iterator", "retained %v: %v resumed after %d elements yields %v@%d, want remainder of %s", sn, pl.q, pl.taken, o, r, fmtRes(pl.expect))
			return false
		}
		pl.taken++
	}
	if pl.taken != len(pl.expect) {
		w.violate("C01", "half-consumed-iterator", "retained %v: %v ended after %d elements, want %s", sn, pl.q, pl.taken, fmtRes(pl.expect))
		return false
	}
	w.probe("half-consumed-iterator-finished")
	return true
}

// realSeq returns the real sequence of a (non-Get) query without consuming it.
func realSeq(tc *TableCtx, txn statedb.ReadTxn, q Query) iter.Seq2[*Obj, statedb.Revision] {
	switch {
	case q.Q == QAll:
		return tc.T.All(txn)
	case q.Q == QByRevision:
		return tc.T.LowerBound(txn, statedb.ByRevision[*Obj](q.Rev))
	}
	var sq statedb.Query[*Obj]
	if q.Kind.isLPM() {
		sq = lpmQuery(q.Kind, q.Pfx, tc.NetIP)
	} else {
		sq = partQuery(q.Kind, q.Key)
	}
	switch q.Q {
	case QList:
		return tc.T.List(txn, sq)
	case QPrefix:
		return tc.T.Prefix(txn, sq)
	}
	return tc.T.LowerBound(txn, sq)
}

// registrarTask registers tables at arbitrary points and uses them at once (C05).
func (w *World) registrarTask(t *simcore.Task) {
	c := w.C
	n := 1 + c.Choose(2)
	for i := 0; i < n; i++ {
		for k := c.Choose(6); k >= 0; k-- {
			t.Step("registrar-wait")
		}
		if w.S.Failed() || len(w.tables) >= 6 {
			return
		}
		w.probe("table-registered-mid-run")
		for _, x := range w.S.Tasks() {
			if tx := tctx(x); tx != nil && x != t && (x.Op == "Commit" || tx.holding != nil) {
				w.probe("table-registered-while-txn-open")
				break
			}
		}
		if !w.newTable(t) {
			return
		}
		ti := len(w.tables) - 1
		t.Step("registered")
		wt := w.beginWrite(t, []int{ti})
		if wt == nil || w.S.Failed() {
			return
		}
		if !w.writeOpKind(t, wt, OpInsert) {
			wt.txn.Abort()
			return
		}
		w.commit(t, wt)
		if w.S.Failed() {
			return
		}
	}
}

// proberTask takes a snapshot at every step it gets and checks cross-table consistency (C02).
func (w *World) proberTask(t *simcore.Task) {
	for i := 0; i < w.P.Probes; i++ {
		t.Step("probe")
		if w.S.Failed() {
			return
		}
		rtxn := w.db.ReadTxn()
		sn := w.bind(rtxn, "probe snapshot", nil)
		if sn == nil {
			return
		}
		w.progress++
	}
}

// finalChecks runs the quiescent tail: iterators are drained or closed,
// virtual time passes, and the graveyard must be empty (C08 liveness);
// retained snapshots are re-read a last time (C01).
func (w *World) finalChecks() {
	s := w.S
	s.Calm()
	s.Spawn("final", func(t *simcore.Task) {
		t.Data = &taskCtx{role: "final"}
		c := w.C
		for _, ic := range w.iters {
			if !ic.live || ic.closed {
				continue
			}
			if c.Choose(2) == 0 {
				if !w.closeIterator(t, ic) {
					return
				}
				continue
			}
			ic.caughtUp = false
			for round := 0; round < 8 && !ic.caughtUp; round++ {
				rtxn := w.db.ReadTxn()
				sn := w.bind(rtxn, "final drain snapshot", nil)
				if sn == nil {
					return
				}
				if _, ok := w.nextOn(ic, rtxn, sn.states[ic.ti], 0, "ReadTxn (final drain)"); !ok {
					return
				}
				t.Step("drain")
			}
			if !ic.caughtUp {
				w.violate("C07", "never-caught-up", "I%d did not reach an open watch channel after 8 full consumptions with no writer running", ic.id)
				return
			}
		}
		if w.P.GraveyardCheck {
			t.Sleep("quiesce", 3*w.gcInterval+time.Second)
			if s.Failed() {
				return
			}
			rtxn := w.db.ReadTxn()
			for _, tc := range w.tables {
				var n int
				if !w.guard("C08", "graveyard length", func() { n = statedb.VerifGraveyardLen(rtxn, tc.T) }) {
					return
				}
				if n != 0 {
					w.violate("C08", "graveyard-not-drained", "table %s still retains %d deleted objects %v after every iterator was caught up or closed (gc interval %v)",
						tc.M.Name, n, 3*w.gcInterval+time.Second, w.gcInterval)
					return
				}
				// (The GraveyardObjectCount metric is not an oracle: a committing transaction and the
				// collector report it from different roots and the reports can arrive out of order.)
			}
			w.probe("graveyard-drained")
		}
		rtxn := w.db.ReadTxn()
		sn := w.bind(rtxn, "final snapshot", nil)
		if sn == nil {
			return
		}
		for ti, st := range sn.states {
			if st == nil {
				continue
			}
			if st != w.tables[ti].M.last() && st.Rev != w.tables[ti].M.last().Rev {
				w.violate("C05", "final-state", "table %s ends at revision %d, the model at %d", w.tables[ti].M.Name, st.Rev, w.tables[ti].M.last().Rev)
				return
			}
			if !w.checkTable(w.P.ReadProp, rtxn, w.tables[ti], st, w.finalQueries(), "final snapshot") {
				return
			}
			if w.P.InitCheck && !w.checkInit(rtxn, ti, st, "final snapshot") {
				return
			}
		}
		for _, snp := range w.snaps {
			if !w.recheck(snp, w.finalQueries()) {
				return
			}
		}
		// close every iterator that is still open (also those created in aborted transactions)
		for _, ic := range w.allIters {
			if !ic.closed {
				if !w.closeIterator(t, ic) {
					return
				}
			}
		}
	})
	s.Run()
}

// finalQueries is the number of queries of the closing battery (0 = every candidate query). Backlog runs
// have thousands of objects and as many candidate queries, each linear in the table: they take a sample.
func (w *World) finalQueries() int {
	if w.bulk && (w.P.FinalQueries <= 0 || w.P.FinalQueries > 40) {
		return 40
	}
	return w.P.FinalQueries
}
