package dbworld

import (
	"bytes"
	"fmt"
	"iter"
	"net/netip"
	"sort"
	"strings"

	"github.com/cilium/statedb"
	"github.com/cilium/statedb/index"
	"github.com/cilium/statedb/lpm"
)

// Pfx is a bit prefix over 4 bytes of data.
type Pfx struct {
	Bits uint32
	Len  uint8
}

func (p Pfx) masked() Pfx {
	if p.Len == 0 {
		return Pfx{0, 0}
	}
	if p.Len >= 32 {
		return Pfx{p.Bits, 32}
	}
	return Pfx{p.Bits &^ (uint32(0xffffffff) >> p.Len), p.Len}
}

func (p Pfx) data() []byte {
	return []byte{byte(p.Bits >> 24), byte(p.Bits >> 16), byte(p.Bits >> 8), byte(p.Bits)}
}

func (p Pfx) String() string { return fmt.Sprintf("%08x/%d", p.masked().Bits, p.Len) }

// covers reports whether prefix p covers prefix q (q is at least as long and agrees on p's bits).
func (p Pfx) covers(q Pfx) bool {
	if q.Len < p.Len {
		return false
	}
	return Pfx{q.Bits, p.Len}.masked() == p.masked()
}

func pfxLess(a, b Pfx) bool {
	a, b = a.masked(), b.masked()
	if a.Bits != b.Bits {
		return a.Bits < b.Bits
	}
	return a.Len < b.Len
}

// Obj is the object type stored in every simulated table. It is immutable once inserted.
type Obj struct {
	ID    string   // primary key (arbitrary bytes)
	U     string   // unique secondary key; ignored unless HasU
	HasU  bool     //
	S     string   // non-unique secondary key; ignored unless HasS
	HasS  bool     //
	Tags  []string // multi-key non-unique secondary (may be empty, contain duplicates and the empty key)
	LU    *Pfx     // unique LPM prefix
	LN    []Pfx    // non-unique LPM prefixes
	Val   int      // payload
	Stamp int      // id of the transaction that wrote this version
}

func (o *Obj) TableHeader() []string { return []string{"ID", "Val"} }
func (o *Obj) TableRow() []string    { return []string{fmt.Sprintf("%q", o.ID), fmt.Sprint(o.Val)} }

func (o *Obj) clone() *Obj {
	c := *o
	c.Tags = append([]string(nil), o.Tags...)
	c.LN = append([]Pfx(nil), o.LN...)
	if o.LU != nil {
		p := *o.LU
		c.LU = &p
	}
	return &c
}

func (o *Obj) String() string {
	if o == nil {
		return "<nil>"
	}
	var b strings.Builder
	fmt.Fprintf(&b, "{%q", o.ID)
	if o.HasU {
		fmt.Fprintf(&b, " u=%q", o.U)
	}
	if o.HasS {
		fmt.Fprintf(&b, " s=%q", o.S)
	}
	if len(o.Tags) > 0 {
		fmt.Fprintf(&b, " tags=%q", o.Tags)
	}
	if o.LU != nil {
		fmt.Fprintf(&b, " lu=%v", *o.LU)
	}
	if len(o.LN) > 0 {
		fmt.Fprintf(&b, " ln=%v", o.LN)
	}
	fmt.Fprintf(&b, " v=%d t=%d}", o.Val, o.Stamp)
	return b.String()
}

func objEqual(a, b *Obj) bool {
	if a == nil || b == nil {
		return a == b
	}
	if a.ID != b.ID || a.U != b.U || a.HasU != b.HasU || a.S != b.S || a.HasS != b.HasS || a.Val != b.Val || a.Stamp != b.Stamp {
		return false
	}
	if len(a.Tags) != len(b.Tags) || len(a.LN) != len(b.LN) {
		return false
	}
	for i := range a.Tags {
		if a.Tags[i] != b.Tags[i] {
			return false
		}
	}
	for i := range a.LN {
		if a.LN[i] != b.LN[i] {
			return false
		}
	}
	if (a.LU == nil) != (b.LU == nil) {
		return false
	}
	if a.LU != nil && *a.LU != *b.LU {
		return false
	}
	return true
}

// key builds an explicit non-nil key so that "empty key" and "no key" are never confused.
func key(s string) index.Key {
	k := make([]byte, len(s), len(s)+1)
	copy(k, s)
	return k
}

// IndexKind enumerates the index kinds a schema may contain.
type IndexKind int

const (
	IdxPrimary IndexKind = iota
	IdxUnique
	IdxNonUnique
	IdxMulti
	IdxLPMUnique
	IdxLPMMulti
)

func (k IndexKind) String() string {
	return [...]string{"id", "u", "s", "tags", "lu", "ln"}[k]
}

func (k IndexKind) isLPM() bool { return k == IdxLPMUnique || k == IdxLPMMulti }
func (k IndexKind) unique() bool {
	return k == IdxPrimary || k == IdxUnique || k == IdxLPMUnique
}

// modelKeys is the model's definition of an object's keys in an index: pure functions of the object.
func modelKeys(kind IndexKind, o *Obj) [][]byte {
	switch kind {
	case IdxPrimary:
		return [][]byte{[]byte(o.ID)}
	case IdxUnique:
		if o.HasU {
			return [][]byte{[]byte(o.U)}
		}
	case IdxNonUnique:
		if o.HasS {
			return [][]byte{[]byte(o.S)}
		}
	case IdxMulti:
		var out [][]byte
		seen := map[string]bool{}
		for _, t := range o.Tags {
			if !seen[t] {
				seen[t] = true
				out = append(out, []byte(t))
			}
		}
		return out
	}
	return nil
}

func modelPfxs(kind IndexKind, o *Obj) []Pfx {
	switch kind {
	case IdxLPMUnique:
		if o.LU != nil {
			return []Pfx{o.LU.masked()}
		}
	case IdxLPMMulti:
		var out []Pfx
		seen := map[Pfx]bool{}
		for _, p := range o.LN {
			m := p.masked()
			if !seen[m] {
				seen[m] = true
				out = append(out, m)
			}
		}
		return out
	}
	return nil
}

var (
	idIndex = statedb.Index[*Obj, string]{
		Name:       "id",
		FromObject: func(o *Obj) index.KeySet { return index.NewKeySet(key(o.ID)) },
		FromKey:    func(s string) index.Key { return key(s) },
		FromString: func(s string) (index.Key, error) { return key(s), nil },
		Unique:     true,
	}
	uIndex = statedb.Index[*Obj, string]{
		Name: "u",
		FromObject: func(o *Obj) index.KeySet {
			if !o.HasU {
				return index.NewKeySet()
			}
			return index.NewKeySet(key(o.U))
		},
		FromKey:    func(s string) index.Key { return key(s) },
		FromString: func(s string) (index.Key, error) { return key(s), nil },
		Unique:     true,
	}
	sIndex = statedb.Index[*Obj, string]{
		Name: "s",
		FromObject: func(o *Obj) index.KeySet {
			if !o.HasS {
				return index.NewKeySet()
			}
			return index.NewKeySet(key(o.S))
		},
		FromKey:    func(s string) index.Key { return key(s) },
		FromString: func(s string) (index.Key, error) { return key(s), nil },
		Unique:     false,
	}
	tagsIndex = statedb.Index[*Obj, string]{
		Name: "tags",
		FromObject: func(o *Obj) index.KeySet {
			keys := make([]index.Key, 0, len(o.Tags))
			for _, t := range o.Tags {
				keys = append(keys, key(t))
			}
			return index.NewKeySet(keys...)
		},
		FromKey:    func(s string) index.Key { return key(s) },
		FromString: func(s string) (index.Key, error) { return key(s), nil },
		Unique:     false,
	}
	luIndex = statedb.LPMIndex[*Obj]{
		Name: "lu",
		FromObject: func(o *Obj) iter.Seq2[[]byte, statedb.PrefixLen] {
			return func(yield func([]byte, statedb.PrefixLen) bool) {
				if o.LU != nil {
					yield(o.LU.data(), statedb.PrefixLen(o.LU.Len))
				}
			}
		},
		Unique: true,
	}
	lnIndex = statedb.LPMIndex[*Obj]{
		Name: "ln",
		FromObject: func(o *Obj) iter.Seq2[[]byte, statedb.PrefixLen] {
			return func(yield func([]byte, statedb.PrefixLen) bool) {
				for _, p := range o.LN {
					if !yield(p.data(), statedb.PrefixLen(p.Len)) {
						return
					}
				}
			}
		},
		Unique: false,
	}
)

// lnNetIndex is the "ln" index built with NetIPPrefixIndex instead of LPMIndex: the same prefixes as IPv4
// netip.Prefix values. Half of the tables use it.
var lnNetIndex = statedb.NetIPPrefixIndex[*Obj]{
	Name: "ln",
	FromObject: func(o *Obj) iter.Seq[netip.Prefix] {
		return func(yield func(netip.Prefix) bool) {
			for _, p := range o.LN {
				if !yield(p.netip()) {
					return
				}
			}
		}
	},
	Unique: false,
}

func (p Pfx) netip() netip.Prefix {
	d := p.data()
	return netip.PrefixFrom(netip.AddrFrom4([4]byte{d[0], d[1], d[2], d[3]}), int(p.Len))
}

func indexerFor(k IndexKind, netIP bool) statedb.Indexer[*Obj] {
	if k == IdxLPMMulti && netIP {
		return lnNetIndex
	}
	switch k {
	case IdxUnique:
		return uIndex
	case IdxNonUnique:
		return sIndex
	case IdxMulti:
		return tagsIndex
	case IdxLPMUnique:
		return luIndex
	case IdxLPMMulti:
		return lnIndex
	}
	return idIndex
}

// partQuery builds a query against a part-backed index from raw key bytes.
func partQuery(k IndexKind, raw []byte) statedb.Query[*Obj] {
	kk := key(string(raw))
	switch k {
	case IdxUnique:
		return uIndex.QueryFromKey(kk)
	case IdxNonUnique:
		return sIndex.QueryFromKey(kk)
	case IdxMulti:
		return tagsIndex.QueryFromKey(kk)
	}
	return idIndex.QueryFromKey(kk)
}

func lpmQuery(k IndexKind, p Pfx, netIP bool) statedb.Query[*Obj] {
	if k == IdxLPMMulti && netIP {
		return lnNetIndex.QueryPrefix(p.netip())
	}
	if k == IdxLPMUnique {
		return luIndex.Query(p.data(), lpm.PrefixLen(p.Len))
	}
	return lnIndex.Query(p.data(), lpm.PrefixLen(p.Len))
}

// Alphabet kinds for key universes.
const (
	AlphaTiny = iota
	AlphaEscape
	AlphaFanout
	AlphaLongPrefix
	numAlpha
)

// universe builds the finite list of candidate key strings of a run.
func universe(kind int, n int, pick func(int) int) []string {
	var out []string
	seen := map[string]bool{}
	add := func(s string) {
		if !seen[s] && len(out) < n {
			seen[s] = true
			out = append(out, s)
		}
	}
	// a random selection of n strings of the alphabet (not always its first n)
	sample := func(list []string) {
		perm := append([]string(nil), list...)
		for i := 0; i < len(perm) && i < n; i++ {
			j := i + pick(len(perm)-i)
			perm[i], perm[j] = perm[j], perm[i]
			add(perm[i])
		}
	}
	switch kind {
	case AlphaTiny:
		sample([]string{"", "a", "b", "aa", "ab", "ba", "bb", "aab", "abb", "aba", "baa", "abab", "aaaa", "c", "ca", "abc"})
	case AlphaEscape:
		sample([]string{"", "\x00", "\x01", "\xff", "\x00\x00", "\x00\x01", "\x01\x00", "\x01\x01", "\x00\xff", "\xff\x00", "\x01\x02", "\x02", "\x00\x00\x00", "a\x00", "a\x00b", "a\x01", "a", "\x01\x01\x01", "\x00\x01\x00", "\xff\xff",
			"\x01\x05", "\x01\xff", "\x01a", "\x01\x05\x00", "\x01\x06", "\x00\x02", "\x02\x01", "\x01\x03\x00", "\x03", "\x00a"})
	case AlphaFanout:
		// single bytes spread over the whole range plus a second level under one byte,
		// enough siblings to cross every node size threshold
		base := byte(pick(256))
		// a block of two-byte keys under one first byte (an inner node that grows past 16 and 48
		// children and shrinks again), then single bytes spread over the whole range
		m := 20 + pick(40)
		if m > n {
			n = m + 10
		}
		for i := 0; i < m; i++ {
			add(string([]byte{base, byte(i * 4)}))
		}
		for i := 0; len(out) < n; i++ {
			add(string([]byte{byte(int(base) + 1 + i*7)}))
		}
	case AlphaLongPrefix:
		prefix := strings.Repeat("p", 6+pick(10))
		for _, suf := range []string{"", "a", "b", "ab", "ba", "\x00", "\x01", "aa", "abc", "b\x00", "c", "ca"} {
			add(prefix + suf)
		}
		add("p")
		add("")
	}
	// pad with numbered keys if the alphabet is smaller than requested
	for i := 0; len(out) < n; i++ {
		add(fmt.Sprintf("k%d", i))
	}
	return out
}

// pfxUniverse builds nested and diverging prefixes around a base pattern.
func pfxUniverse(pick func(int) int) []Pfx {
	base := uint32(pick(1<<16))<<16 | uint32(pick(1<<16))
	var out []Pfx
	seen := map[Pfx]bool{}
	add := func(p Pfx) {
		m := p.masked()
		if !seen[m] {
			seen[m] = true
			out = append(out, m)
		}
	}
	add(Pfx{base, 0})
	lens := []uint8{1, 7, 8, 9, 15, 16, 17, 24, 31, 32}
	for _, l := range lens {
		add(Pfx{base, l})
	}
	// diverge at chosen bits
	for i := 0; i < 6; i++ {
		bit := uint8(pick(32))
		l := bit + 1 + uint8(pick(int(32-bit)))
		if l > 32 {
			l = 32
		}
		add(Pfx{base ^ (1 << (31 - bit)), l})
	}
	add(Pfx{base ^ 1, 32})
	add(Pfx{^base, 32})
	add(Pfx{^base, 3})
	sort.Slice(out, func(i, j int) bool { return pfxLess(out[i], out[j]) })
	return out
}

func bytesHasPrefix(k, p []byte) bool { return bytes.HasPrefix(k, p) }
