package dbworld

import (
	"errors"
	"fmt"
	"iter"
	"sort"
	"strings"

	"github.com/cilium/statedb"

	"verif/sim/simcore"
)

// WTxn is an open write transaction together with its staged model state.
type WTxn struct {
	id        int
	txn       statedb.WriteTxn
	tables    []int               // locked table indexes (deduplicated, sorted)
	staged    map[int]*TableState // staged versions of locked tables
	base      map[int]*TableState
	dels      map[int][]MDel
	snap      *Snap // binding of the tables that are not locked
	newIters  []*IterCtx
	iwatches  []*Watch // channels returned by InsertWatch in this transaction
	undone    []*initReg
	doneMarks []*initReg
	result    *Snap     // bound snapshot returned by Commit
	held      []*pulled // query sequences obtained through the transaction and only partly consumed so far
	refSnap   *Snap     // C02: committed state bound right after the transaction began ...
	refAns    []answer  // ... and the real answers it gave then
	finished  bool      // Commit or Abort has been invoked
	done      bool      // Commit or Abort has returned
	ops       int
}

func sortedInts(m map[int]int) []int {
	var out []int
	for k := range m {
		out = append(out, k)
	}
	sort.Ints(out)
	return out
}

// beginWrite opens a write transaction on the given tables (with duplicates and in any order).
func (w *World) beginWrite(t *simcore.Task, arg []int) *WTxn {
	w.nextTxn++
	wt := &WTxn{id: w.nextTxn, staged: map[int]*TableState{}, base: map[int]*TableState{}, dels: map[int][]MDel{}}
	seen := map[int]bool{}
	var metas []statedb.TableMeta
	for _, ti := range arg {
		metas = append(metas, w.tables[ti].T)
		if !seen[ti] {
			seen[ti] = true
			wt.tables = append(wt.tables, ti)
		}
	}
	sort.Ints(wt.tables)
	t.Op = "WriteTxn"
	if tx := tctx(t); tx != nil {
		tx.holding = wt.tables
	}
	t.Acquired = nil
	w.S.Logf("T%d WriteTxn%v invoke by %s", wt.id, arg, t.Name)
	fl := w.floorNow()
	db := w.db
	if w.C.Choose(3) == 0 {
		db = w.db.NewHandle(t.Name) // a named handle shares the database state
		w.probe("writetxn-through-handle")
	}
	if !w.guard("C05", "WriteTxn", func() { wt.txn = db.WriteTxn(metas...) }) {
		return nil
	}
	w.allTxns = append(w.allTxns, wt)
	t.Op = ""
	w.S.Logf("T%d WriteTxn return", wt.id)
	// learn which simulated lock belongs to which table: locks are taken in table creation order
	if len(t.Acquired) == len(wt.tables) {
		for k, l := range t.Acquired {
			w.lockTable[l] = wt.tables[k]
		}
	}
	// mutual exclusion (C05): nobody else may be between WriteTxn and Commit/Abort on these tables
	for _, ti := range wt.tables {
		m := w.tables[ti].M
		if m.Writers != 0 {
			w.violate("C05", "mutual-exclusion", "T%d obtained table %s while another write transaction still holds it", wt.id, m.Name)
			return wt
		}
	}
	for _, ti := range wt.tables {
		tc := w.tables[ti]
		tc.M.Writers++
		base := tc.M.last()
		wt.base[ti] = base
		wt.staged[ti] = base.clone()
		// freshness (C05): the transaction sees every write committed to the table earlier
		var rev uint64
		var num int
		if !w.guard("C05", "Revision", func() {
			rev = tc.T.Revision(wt.txn)
			num = tc.T.NumObjects(wt.txn)
		}) {
			return wt
		}
		if rev != base.Rev || num != len(base.Objs) {
			w.violate(w.attr("C05", "C09"), "stale-write-view", "T%d sees table %s at revision %d with %d objects; the latest transaction committed on it left revision %d with %d objects",
				wt.id, tc.M.Name, rev, num, base.Rev, len(base.Objs))
			return wt
		}
	}
	skip := map[int]bool{}
	for _, ti := range wt.tables {
		skip[ti] = true
	}
	wt.snap = w.bindSince(wt.txn, fmt.Sprintf("WriteTxn T%d", wt.id), skip, fl)
	if w.P.AbortCheck && wt.snap != nil && !w.S.Failed() {
		// reference for "as if it had never run": what the committed state answers now, before any write
		pre := w.db.ReadTxn()
		wt.refSnap = w.bind(pre, fmt.Sprintf("snapshot at the start of T%d", wt.id), nil)
		if wt.refSnap != nil {
			for _, ti := range wt.tables {
				if ti < len(wt.refSnap.states) && wt.refSnap.states[ti] != nil {
					rec, ok := w.recordAnswers("C02", pre, ti, wt.refSnap.states[ti], 4)
					if !ok {
						return wt
					}
					wt.refAns = append(wt.refAns, rec...)
				}
			}
		}
	}
	return wt
}

// stateFor returns the model version the transaction shows for a table.
func (wt *WTxn) stateFor(ti int) *TableState {
	if st, ok := wt.staged[ti]; ok {
		return st
	}
	if wt.snap != nil && ti < len(wt.snap.states) {
		return wt.snap.states[ti]
	}
	return nil
}

func (wt *WTxn) locked(ti int) bool { _, ok := wt.staged[ti]; return ok }

// commit publishes the transaction.
func (w *World) commit(t *simcore.Task, wt *WTxn) {
	if wt.finished {
		return
	}
	for _, pl := range wt.held {
		pl.stop()
	}
	wt.held = nil
	mc := &MCommit{ID: wt.id, Entries: map[int]int{}, RevChg: map[int]bool{}}
	for _, ti := range wt.tables {
		tc := w.tables[ti]
		st := wt.staged[ti]
		st.CommitID = wt.id
		st.Idx = len(tc.M.Chain)
		for i := range wt.dels[ti] {
			wt.dels[ti][i].Commit = st.Idx
		}
		st.Deletes = wt.dels[ti]
		for id, d := range st.Dead {
			if d.Commit < 0 {
				d.Commit = st.Idx
				st.Dead[id] = d
			}
		}
		tc.M.DelLog = append(tc.M.DelLog, wt.dels[ti]...)
		mc.Entries[ti] = st.Idx
		mc.RevChg[ti] = st.Rev != wt.base[ti].Rev
		st.frozen = true
		tc.M.Chain = append(tc.M.Chain, st)
		tc.M.Writers--
	}
	w.inflight[wt.id] = mc
	wt.finished = true
	tx := tctx(t)
	tx.commit = wt
	t.Op = "Commit"
	w.S.Logf("T%d Commit invoke", wt.id)
	var rtxn statedb.ReadTxn
	ok := w.guard("C02", "Commit", func() { rtxn = wt.txn.Commit() })
	wt.done = ok
	t.Op = ""
	tx.commit = nil
	tx.holding = nil
	delete(w.inflight, wt.id)
	if !ok {
		return
	}
	w.S.Logf("T%d Commit return", wt.id)
	w.progress++
	for _, ti := range wt.tables {
		m := w.tables[ti].M
		if mc.Entries[ti] > m.MinVis {
			m.MinVis = mc.Entries[ti]
		}
		m.Chain[mc.Entries[ti]].Returned = true
	}
	// the returned snapshot contains the transaction (C02)
	sn := w.bindMode(rtxn, fmt.Sprintf("snapshot returned by Commit of T%d", wt.id), nil, true)
	if sn == nil {
		return
	}
	for _, ti := range wt.tables {
		if ti >= len(sn.states) || sn.states[ti] == nil {
			w.violate("C02", "commit-result", "the snapshot returned by Commit of T%d does not contain table %s", wt.id, w.tables[ti].M.Name)
			return
		}
		if sn.states[ti].Rev != wt.staged[ti].Rev {
			w.violate("C02", "commit-result", "the snapshot returned by Commit of T%d shows table %s at revision %d, not at the revision of the transaction's own writes (%d)",
				wt.id, w.tables[ti].M.Name, sn.states[ti].Rev, wt.staged[ti].Rev)
			return
		}
	}
	wt.result = sn
	w.afterCommit(t, wt, sn)
}

// abort discards the transaction.
func (w *World) abort(t *simcore.Task, wt *WTxn) {
	if wt.finished {
		return
	}
	for _, pl := range wt.held {
		pl.stop()
	}
	wt.held = nil
	for _, ti := range wt.tables {
		w.tables[ti].M.Writers--
	}
	wt.finished = true
	w.abortedTxn[wt.id] = true
	if wt.ops > 0 {
		for _, ti := range wt.tables {
			w.tables[ti].M.AbortedWrites++
		}
	}
	tx := tctx(t)
	// reference answers from the committed state right before the Abort (C02: abort leaves no trace)
	var ref []answer
	var refSnap *Snap
	if w.P.AbortCheck {
		pre := w.db.ReadTxn()
		refSnap = w.bind(pre, fmt.Sprintf("snapshot before Abort of T%d", wt.id), nil)
		if refSnap == nil {
			return
		}
		for _, ti := range wt.tables {
			if ti < len(refSnap.states) && refSnap.states[ti] != nil {
				rec, ok := w.recordAnswers("C02", pre, ti, refSnap.states[ti], w.P.BatteryQueries)
				if !ok {
					return
				}
				ref = append(ref, rec...)
			}
		}
	}
	if w.P.AbortCheck && wt.refSnap != nil && refSnap != nil {
		sameStart := true
		for _, ti := range wt.tables {
			if ti >= len(wt.refSnap.states) || ti >= len(refSnap.states) || wt.refSnap.states[ti] != refSnap.states[ti] {
				sameStart = false
			}
		}
		if sameStart && !w.sameAnswers("C02", "uncommitted-writes-visible", refSnap.txn, wt.refAns, fmt.Sprintf("T%d (open): committed state before its first write vs. right before its Abort", wt.id)) {
			return
		}
	}
	tx.abort = wt
	t.Op = "Abort"
	w.S.Logf("T%d Abort invoke", wt.id)
	ok := w.guard("C02", "Abort", func() { wt.txn.Abort() })
	wt.done = ok
	t.Op = ""
	tx.abort = nil
	tx.holding = nil
	if !ok {
		return
	}
	w.S.Logf("T%d Abort return", wt.id)
	w.fault("abort")
	for _, r := range wt.undone {
		r.dead = true
	}
	for _, it := range wt.newIters {
		it.dead = true
	}
	if w.P.AbortCheck {
		// abort leaves no trace (C02): the tables are locked by nobody else between the two
		// snapshots unless another writer got in; compare only if both bind to the same versions
		rtxn := w.db.ReadTxn()
		sn := w.bind(rtxn, fmt.Sprintf("snapshot after Abort of T%d", wt.id), nil)
		if sn == nil {
			return
		}
		same := true
		for _, ti := range wt.tables {
			if ti >= len(sn.states) || ti >= len(refSnap.states) || sn.states[ti] != refSnap.states[ti] {
				same = false
			}
		}
		if same {
			w.probe("abort-twin-compared")
			if !w.sameAnswers("C02", "abort-left-trace", rtxn, ref, fmt.Sprintf("Abort of T%d", wt.id)) {
				return
			}
			// ... and exactly what it answered before the transaction made its first write
			if wt.refSnap != nil {
				sameStart := true
				for _, ti := range wt.tables {
					if ti >= len(wt.refSnap.states) || wt.refSnap.states[ti] != sn.states[ti] {
						sameStart = false
					}
				}
				if sameStart && !w.sameAnswers("C02", "aborted-writes-visible", rtxn, wt.refAns, fmt.Sprintf("T%d (aborted): committed state before its first write vs. after its Abort", wt.id)) {
					return
				}
			}
			for _, ti := range wt.tables {
				if sn.states[ti] != nil {
					w.checkGraveyardBound("C02", rtxn, ti, sn.states[ti])
				}
				// retained deletions and delete trackers as if the transaction had never run
				if !w.trackersAsModel(rtxn, ti, fmt.Sprintf("after Abort of T%d", wt.id)) {
					return
				}
			}
		}
	}
}

func errClass(err error) string {
	switch {
	case err == nil:
		return "nil"
	case errors.Is(err, statedb.ErrRevisionNotEqual):
		return "ErrRevisionNotEqual"
	case errors.Is(err, statedb.ErrObjectNotFound):
		return "ErrObjectNotFound"
	case errors.Is(err, statedb.ErrTableNotLockedForWriting):
		return "ErrTableNotLockedForWriting"
	case errors.Is(err, statedb.ErrTransactionClosed):
		return "ErrTransactionClosed"
	}
	return "other:" + err.Error()
}

// Write operation kinds.
const (
	OpInsert = iota
	OpInsertWatch
	OpModify
	OpDelete
	OpDeleteAll
	OpCAS
	OpCAD
	OpChanges  // create a change iterator
	OpRegInit  // register an initializer
	OpDoneInit // mark an initializer done
	OpUnlocked // write through a table the transaction does not hold
	OpReadBack // query battery through the transaction
	OpBurst    // many inserts or deletes of neighbouring keys in one go
	numOps
)

var opNames = [...]string{"Insert", "InsertWatch", "Modify", "Delete", "DeleteAll", "CompareAndSwap", "CompareAndDelete", "Changes", "RegisterInitializer", "MarkDone", "UnlockedWrite", "ReadBack", "Burst"}

// genObj draws an object for table tc given the transaction's view st.
func (w *World) genObj(tc *TableCtx, st *TableState, txnID int) *Obj {
	c := w.C
	o := &Obj{Val: c.Choose(100), Stamp: txnID}
	// bias towards existing objects
	ids := st.sortedIDs()
	if len(ids) > 0 && c.Choose(2) == 0 {
		o.ID = ids[c.Choose(len(ids))]
	} else {
		o.ID = tc.IDs[c.Choose(len(tc.IDs))]
	}
	for _, k := range tc.M.Kinds {
		switch k {
		case IdxUnique:
			if c.Choose(5) != 0 {
				o.HasU = true
				o.U = string([]byte{[]byte{0x00, 0x01, 'a', 0xff}[c.Choose(4)]}) + o.ID
			}
		case IdxNonUnique:
			if c.Choose(6) != 0 {
				o.HasS = true
				o.S = tc.Sec[c.Choose(len(tc.Sec))]
			}
		case IdxMulti:
			n := c.Choose(4)
			for i := 0; i < n; i++ {
				o.Tags = append(o.Tags, tc.Tag[c.Choose(len(tc.Tag))])
			}
		case IdxLPMUnique:
			if c.Choose(4) != 0 {
				p := tc.Pfx[c.Choose(len(tc.Pfx))]
				free := true
				for id, mo := range st.Objs {
					if id != o.ID && mo.O.LU != nil && mo.O.LU.masked() == p.masked() {
						free = false
						break
					}
				}
				if free {
					o.LU = &p
				}
			}
		case IdxLPMMulti:
			n := c.Choose(3)
			for i := 0; i < n; i++ {
				o.LN = append(o.LN, tc.Pfx[c.Choose(len(tc.Pfx))])
			}
			// many objects under one hot prefix: entries with long tails, inserts in the middle
			if c.Choose(2) == 0 {
				o.LN = append(o.LN, tc.Pfx[tc.HotPfx])
			}
		}
	}
	return o
}

// checkRev applies the revision rules (C09) after a write operation and
// records the observed table revision in the staged state.
func (w *World) checkRev(wt *WTxn, ti int, changed bool, what string) (uint64, bool) {
	tc := w.tables[ti]
	st := wt.staged[ti]
	var rev uint64
	if !w.guard("C09", "Revision", func() { rev = tc.T.Revision(wt.txn) }) {
		return 0, false
	}
	if changed {
		if rev <= st.Rev {
			w.violate("C09", "revision-not-increased", "T%d %s on %s: table revision %d after a successful write, was %d", wt.id, what, tc.M.Name, rev, st.Rev)
			return 0, false
		}
	} else if rev != st.Rev {
		// C09's clause; also C03's "a rejected operation changes nothing" (the table revision is something)
		w.violate(w.attr("C09", "C03"), "revision-changed", "T%d %s on %s changed nothing but the table revision went from %d to %d", wt.id, what, tc.M.Name, st.Rev, rev)
		return 0, false
	}
	st.Rev = rev
	return rev, true
}

// applyInsert updates the staged state for a successful insert of o at revision rev.
func (wt *WTxn) applyInsert(ti int, o *Obj, rev uint64) {
	st := wt.staged[ti]
	st.Objs[o.ID] = MObj{O: o, Rev: rev}
	delete(st.Dead, o.ID)
}

func (wt *WTxn) applyDelete(ti int, id string, lo, hi uint64) {
	st := wt.staged[ti]
	old := st.Objs[id]
	delete(st.Objs, id)
	d := MDel{ID: id, O: old.O, Lo: lo, Hi: hi, Commit: -1}
	st.Dead[id] = d
	wt.dels[ti] = append(wt.dels[ti], d)
}

// cmpOld compares the (old, hadOld, err) tuple of a write operation with the model's.
func (w *World) cmpOld(wt *WTxn, what string, gotOld *Obj, gotHad bool, gotErr error, wantOld *Obj, wantHad bool, wantErr string) bool {
	if errClass(gotErr) != wantErr {
		prop := "C03"
		if wantErr == "ErrRevisionNotEqual" && gotErr == nil {
			// a compare-and-* with a mismatching revision went through: it also moved the table revision,
			// which a rejected operation must not (C09)
			prop = w.attr("C03", "C09")
		}
		w.violate(prop, "op-error", "T%d %s: error %s, want %s", wt.id, what, errClass(gotErr), wantErr)
		return false
	}
	if gotHad != wantHad {
		w.violate("C03", "op-hadold", "T%d %s: hadOld=%v, want %v", wt.id, what, gotHad, wantHad)
		return false
	}
	if wantHad && !objEqual(gotOld, wantOld) {
		w.violate("C03", "op-old", "T%d %s: old object %v, want %v", wt.id, what, gotOld, wantOld)
		return false
	}
	return true
}

// verifyObj checks that the object is readable through the transaction with the revision the write assigned (C09, C03).
func (w *World) verifyObj(wt *WTxn, ti int, id string, what string) bool {
	tc := w.tables[ti]
	st := wt.staged[ti]
	var o *Obj
	var rev uint64
	var found bool
	if !w.guard("C03", "Get", func() { o, rev, found = tc.T.Get(wt.txn, idIndex.Query(id)) }) {
		return false
	}
	want, ok := st.Objs[id]
	if found != ok {
		w.violate("C03", "read-your-writes", "T%d after %s: Get(%q) found=%v, want %v", wt.id, what, id, found, ok)
		return false
	}
	if !ok {
		return true
	}
	if !objEqual(o, want.O) {
		w.violate("C03", "read-your-writes", "T%d after %s: Get(%q) = %v, want %v", wt.id, what, id, o, want.O)
		return false
	}
	if rev != want.Rev {
		if w.prop == "C03" {
			// C09's matter; a C03 run goes on with the model at what the write must have produced, so that
			// what a stale object revision does to the compare-and-* operations is still judged
			w.probe("object-revision-differs-run-continued")
			return true
		}
		w.violate("C09", "object-revision", "T%d after %s: object %q carries revision %d, the write that produced it was assigned %d", wt.id, what, id, rev, want.Rev)
		return false
	}
	return true
}

func mergeFn(kind int) func(old, new *Obj) *Obj {
	switch kind {
	case 0:
		return func(old, new *Obj) *Obj { return new }
	case 1:
		// keep the old secondary keys, add the values
		return func(old, new *Obj) *Obj {
			n := old.clone()
			n.Val = old.Val + new.Val
			n.Stamp = new.Stamp
			return n
		}
	default:
		// take the new keys, merge the tags
		return func(old, new *Obj) *Obj {
			n := new.clone()
			n.Tags = append(append([]string(nil), old.Tags...), new.Tags...)
			if len(n.Tags) > 4 {
				n.Tags = n.Tags[:4]
			}
			n.Val = old.Val*2 + new.Val
			return n
		}
	}
}

// writeOp performs one randomly chosen operation in the transaction; returns false when the run must stop.
func (w *World) writeOp(t *simcore.Task, wt *WTxn) bool {
	c := w.C
	p := w.P
	op := c.Weighted(p.OpWeights[:])
	if !w.faultsOn && op == OpUnlocked {
		op = OpInsert
	}
	if len(wt.tables) == 0 || wt.finished {
		return true
	}
	// a sequence obtained through the transaction earlier is consumed now, after later writes of the
	// same transaction: it must yield the state at its creation
	if len(wt.held) > 0 && wt.ops > wt.held[0].atOps && c.Choose(2) == 0 {
		pl := wt.held[0]
		wt.held = wt.held[1:]
		if !w.finishHeld(wt, pl) {
			return false
		}
	}
	if len(wt.held) < 2 && c.Choose(6) == 0 {
		hti := wt.tables[c.Choose(len(wt.tables))]
		w.holdSequence(wt, hti, wt.staged[hti])
		if w.S.Failed() {
			return false
		}
	}
	ti := wt.tables[c.Choose(len(wt.tables))]
	if len(wt.held) > 0 && wt.locked(wt.held[0].ti) && c.Choose(4) != 0 {
		ti = wt.held[0].ti // write under the held sequence
	}
	tc := w.tables[ti]
	st := wt.staged[ti]
	wt.ops++
	if w.bulk && w.bulkOps < 4 && c.Choose(3) == 0 {
		w.bulkOps++
		return w.bulkOp(t, wt, ti)
	}
	t.Op = opNames[op]
	defer func() { t.Op = "" }()

	switch op {
	case OpInsert, OpInsertWatch, OpModify, OpCAS:
		o := w.genObj(tc, st, wt.id)
		old, had := st.Objs[o.ID]
		var gotOld *Obj
		var gotHad bool
		var gotErr error
		var watch <-chan struct{}
		what := fmt.Sprintf("%s(%s,%v)", opNames[op], tc.M.Name, o)
		wantErr := "nil"
		newObj := o
		var guardRev uint64
		var refAns []answer
		switch op {
		case OpInsert:
			if c.Choose(5) == 0 {
				// the untyped access path used by scripting and the HTTP API
				what = "AnyTable." + what
				w.probe("anytable-insert")
				if !w.guard("C03", what, func() {
					var ao any
					ao, gotHad, gotErr = statedb.AnyTable{Meta: tc.T}.Insert(wt.txn, o)
					if ao != nil {
						gotOld, _ = ao.(*Obj)
					}
				}) {
					return false
				}
				break
			}
			if !w.guard("C03", what, func() { gotOld, gotHad, gotErr = tc.T.Insert(wt.txn, o) }) {
				return false
			}
		case OpInsertWatch:
			if !w.guard("C03", what, func() { gotOld, gotHad, watch, gotErr = tc.T.InsertWatch(wt.txn, o) }) {
				return false
			}
		case OpModify:
			mk := c.Choose(3)
			mf := mergeFn(mk)
			if had {
				newObj = mf(old.O, o)
			}
			if w.faultsOn && had && c.Choose(12) == 0 {
				// fault: the user's merge callback panics; the transaction is aborted by the deferred Abort
				w.fault("merge-panic")
				func() {
					defer func() { recover() }()
					tc.T.Modify(wt.txn, o, func(old, new *Obj) *Obj { panic("injected merge panic") })
				}()
				w.S.Logf("T%d Modify(%s) merge callback panicked (injected)", wt.id, tc.M.Name)
				w.abort(t, wt)
				return true
			}
			what = fmt.Sprintf("Modify(%s,%v,merge%d)", tc.M.Name, o, mk)
			if !w.guard("C03", what, func() { gotOld, gotHad, gotErr = tc.T.Modify(wt.txn, o, mf) }) {
				return false
			}
		case OpCAS:
			switch g := c.Choose(5); {
			case g == 0 && had:
				guardRev = old.Rev
			case g == 1:
				guardRev = st.Rev + 1 + uint64(c.Choose(3)) // future
			case g == 2 && p.GuardZero:
				guardRev = 0
			case g == 3 && had && old.Rev > 1:
				guardRev = old.Rev - 1 // stale
			default:
				// another object's revision, or the current one
				guardRev = old.Rev
				for _, id := range st.sortedIDs() {
					if id != o.ID {
						guardRev = st.Objs[id].Rev
						break
					}
				}
				if guardRev == 0 {
					guardRev = 1 + uint64(c.Choose(4))
				}
			}
			what = fmt.Sprintf("CompareAndSwap(%s,%d,%v)", tc.M.Name, guardRev, o)
			switch {
			case !had:
				wantErr = "ErrObjectNotFound"
			case old.Rev != guardRev:
				wantErr = "ErrRevisionNotEqual"
			}
			if wantErr != "nil" {
				var ok bool
				if refAns, ok = w.recordAnswers("C03", wt.txn, ti, st, 6); !ok {
					return false
				}
			}
			if !w.guard("C03", what, func() { gotOld, gotHad, gotErr = tc.T.CompareAndSwap(wt.txn, guardRev, o) }) {
				return false
			}
		}
		w.S.Logf("T%d %s -> hadOld=%v err=%s", wt.id, what, gotHad, errClass(gotErr))
		if wantErr != "nil" {
			w.probe("rejected-" + wantErr)
			// rejected: changes nothing. hadOld/old as documented: CAS mismatch returns the current object.
			if !w.cmpOld(wt, what, gotOld, gotHad, gotErr, old.O, had, wantErr) {
				return false
			}
			if _, ok := w.checkRev(wt, ti, false, what); !ok {
				return false
			}
			if !w.verifyObj(wt, ti, o.ID, what) {
				return false
			}
			return w.sameAnswers("C03", "rejected-op-changed-state", wt.txn, refAns, "T"+fmt.Sprint(wt.id)+" rejected "+what)
		}
		if !w.cmpOld(wt, what, gotOld, gotHad, gotErr, old.O, had, "nil") {
			return false
		}
		rev, ok := w.checkRev(wt, ti, true, what)
		if !ok {
			return false
		}
		wt.applyInsert(ti, newObj, rev)
		if !w.verifyObj(wt, ti, o.ID, what) {
			return false
		}
		if op == OpInsertWatch {
			w.registerInsertWatch(wt, ti, o.ID, watch, rev)
		}
		w.progress++

	case OpDelete, OpCAD:
		var id string
		ids := st.sortedIDs()
		if len(ids) > 0 && c.Choose(4) != 0 {
			id = ids[c.Choose(len(ids))]
		} else {
			id = tc.IDs[c.Choose(len(tc.IDs))]
		}
		old, had := st.Objs[id]
		var gotOld *Obj
		var gotHad bool
		var gotErr error
		what := fmt.Sprintf("Delete(%s,%q)", tc.M.Name, id)
		wantErr := "nil"
		arg := &Obj{ID: id}
		var refAns []answer
		if op == OpDelete {
			if !had {
				var ok bool
				if refAns, ok = w.recordAnswers("C03", wt.txn, ti, st, 6); !ok {
					return false
				}
			}
			if c.Choose(5) == 0 {
				what = "AnyTable." + what
				w.probe("anytable-delete")
				if !w.guard("C03", what, func() {
					var ao any
					ao, gotHad, gotErr = statedb.AnyTable{Meta: tc.T}.Delete(wt.txn, arg)
					if ao != nil {
						gotOld, _ = ao.(*Obj)
					}
				}) {
					return false
				}
			} else if !w.guard("C03", what, func() { gotOld, gotHad, gotErr = tc.T.Delete(wt.txn, arg) }) {
				return false
			}
		} else {
			var guardRev uint64
			switch g := c.Choose(4); {
			case g == 0 && had:
				guardRev = old.Rev
			case g == 1:
				guardRev = st.Rev + 1 + uint64(c.Choose(3))
			case g == 2 && p.GuardZero:
				guardRev = 0
			default:
				guardRev = old.Rev
				if had && old.Rev > 1 && c.Choose(2) == 0 {
					guardRev = old.Rev - 1
				}
				if guardRev == 0 {
					guardRev = 1 + uint64(c.Choose(4))
				}
			}
			what = fmt.Sprintf("CompareAndDelete(%s,%d,%q)", tc.M.Name, guardRev, id)
			if had && old.Rev != guardRev {
				wantErr = "ErrRevisionNotEqual"
			}
			if !had || wantErr != "nil" {
				var ok bool
				if refAns, ok = w.recordAnswers("C03", wt.txn, ti, st, 6); !ok {
					return false
				}
			}
			if !w.guard("C03", what, func() { gotOld, gotHad, gotErr = tc.T.CompareAndDelete(wt.txn, guardRev, arg) }) {
				return false
			}
		}
		w.S.Logf("T%d %s -> hadOld=%v err=%s", wt.id, what, gotHad, errClass(gotErr))
		if !w.cmpOld(wt, what, gotOld, gotHad, gotErr, old.O, had, wantErr) {
			return false
		}
		changed := had && wantErr == "nil"
		if !changed {
			if had {
				w.probe("rejected-" + wantErr)
			} else {
				w.probe("noop-delete")
			}
		}
		before := st.Rev
		rev, ok := w.checkRev(wt, ti, changed, what)
		if !ok {
			return false
		}
		if changed {
			wt.applyDelete(ti, id, before, rev)
			w.progress++
		}
		if !w.verifyObj(wt, ti, id, what) {
			return false
		}
		if !changed {
			return w.sameAnswers("C03", "noop-changed-state", wt.txn, refAns, "T"+fmt.Sprint(wt.id)+" no-op "+what)
		}

	case OpDeleteAll:
		var gotErr error
		what := fmt.Sprintf("DeleteAll(%s)", tc.M.Name)
		if !w.guard("C03", what, func() { gotErr = tc.T.DeleteAll(wt.txn) }) {
			return false
		}
		w.S.Logf("T%d %s -> err=%s (%d objects)", wt.id, what, errClass(gotErr), len(st.Objs))
		if gotErr != nil {
			w.violate("C03", "op-error", "T%d %s: error %s, want nil", wt.id, what, errClass(gotErr))
			return false
		}
		n := len(st.Objs)
		before := st.Rev
		rev, ok := w.checkRev(wt, ti, n > 0, what)
		if !ok {
			return false
		}
		if n > 0 && rev-before < uint64(n) {
			w.violate("C09", "revision-not-unique", "T%d %s deleted %d objects but the table revision advanced only from %d to %d", wt.id, what, n, before, rev)
			return false
		}
		for _, id := range st.sortedIDs() {
			wt.applyDelete(ti, id, before, rev)
		}
		if n == 0 {
			w.probe("deleteall-empty")
		} else {
			w.probe("deleteall-nonempty")
			w.progress++
		}
		return w.checkTable("C04", wt.txn, tc, st, 6, "T"+fmt.Sprint(wt.id)+" after "+what)

	case OpChanges:
		return w.createIterator(t, wt, ti)

	case OpRegInit:
		return w.registerInit(t, wt, ti)

	case OpDoneInit:
		return w.doneInit(t, wt, ti)

	case OpUnlocked:
		return w.unlockedWrite(t, wt)

	case OpBurst:
		// a run of neighbouring keys of the universe: drives radix nodes across their size thresholds
		n := 4 + c.Choose(36)
		start := c.Choose(len(tc.IDs))
		mode := c.Choose(4)
		del := mode == 0
		// mode 3 is mixed: present keys are deleted and absent ones inserted, so that one transaction
		// removes a key and then writes next to or underneath it
		done := 0
		for i := 0; i < n; i++ {
			id := tc.IDs[(start+i)%len(tc.IDs)]
			old, had := st.Objs[id]
			before := st.Rev
			if mode == 3 {
				del = had
			}
			if del {
				if !had {
					continue
				}
				var gotOld *Obj
				var gotHad bool
				var gotErr error
				if !w.guard("C03", "Delete (burst)", func() { gotOld, gotHad, gotErr = tc.T.Delete(wt.txn, &Obj{ID: id}) }) {
					return false
				}
				if !w.cmpOld(wt, fmt.Sprintf("Delete(%s,%q) (burst)", tc.M.Name, id), gotOld, gotHad, gotErr, old.O, true, "nil") {
					return false
				}
				rev, ok := w.checkRev(wt, ti, true, "Delete (burst)")
				if !ok {
					return false
				}
				wt.applyDelete(ti, id, before, rev)
			} else {
				o := w.genObj(tc, st, wt.id)
				o.ID = id
				if o.HasU {
					o.U = o.U[:1] + id
				}
				if o.LU != nil {
					// keep the unique LPM index unique under the changed primary key
					for oid, mo := range st.Objs {
						if oid != id && mo.O.LU != nil && mo.O.LU.masked() == o.LU.masked() {
							o.LU = nil
							break
						}
					}
				}
				var gotOld *Obj
				var gotHad bool
				var gotErr error
				if !w.guard("C03", "Insert (burst)", func() { gotOld, gotHad, gotErr = tc.T.Insert(wt.txn, o) }) {
					return false
				}
				if !w.cmpOld(wt, fmt.Sprintf("Insert(%s,%v) (burst)", tc.M.Name, o), gotOld, gotHad, gotErr, old.O, had, "nil") {
					return false
				}
				rev, ok := w.checkRev(wt, ti, true, "Insert (burst)")
				if !ok {
					return false
				}
				wt.applyInsert(ti, o, rev)
			}
			done++
		}
		w.S.Logf("T%d burst on %s: %d %s starting at key #%d", wt.id, tc.M.Name, done, [...]string{"deletes", "inserts", "inserts", "deletes and inserts"}[mode], start)
		if mode == 3 {
			w.probe("burst-mixed")
		}
		w.probe("burst")
		if done > 0 {
			w.progress++
		}
		return w.checkTable("C04", wt.txn, tc, st, 4, "T"+fmt.Sprint(wt.id)+" after burst")

	case OpReadBack:
		w.probe("readback-in-txn")
		// any table, locked or not, through the write transaction
		rti := c.Choose(len(w.tables))
		rst := wt.stateFor(rti)
		if rst == nil {
			return true
		}
		if wt.locked(rti) && len(wt.held) < 2 && c.Choose(2) == 0 {
			w.holdSequence(wt, rti, rst)
			if w.S.Failed() {
				return false
			}
		}
		return w.checkTable(w.P.ReadProp, wt.txn, w.tables[rti], rst, w.P.BatteryQueries, fmt.Sprintf("through T%d", wt.id))
	}
	return true
}

// unlockedWrite attempts writes through a table the transaction does not hold: nothing may change.
func (w *World) unlockedWrite(t *simcore.Task, wt *WTxn) bool {
	c := w.C
	var cand []int
	for ti := range w.tables {
		if !wt.locked(ti) && wt.snap != nil && ti < len(wt.snap.states) && wt.snap.states[ti] != nil {
			cand = append(cand, ti)
		}
	}
	if len(cand) == 0 {
		return true
	}
	ti := cand[c.Choose(len(cand))]
	tc := w.tables[ti]
	st := wt.snap.states[ti]
	o := w.genObj(tc, st, wt.id)
	w.fault("unlocked-write")
	refAns, okk := w.recordAnswers("C03", wt.txn, ti, st, 6)
	if !okk {
		return false
	}
	var err error
	var what string
	switch c.Choose(6) {
	case 5:
		// a change iterator asked for through a transaction that does not hold the table: refused, and the
		// refusal must not need the table's lock (the caller holds other tables: C10)
		what = "Changes"
		cprop := "C03"
		if w.prop == "C10" {
			cprop = "C10"
		}
		var it statedb.ChangeIterator[*Obj]
		w.guard(cprop, what, func() { it, err = tc.T.Changes(wt.txn) })
		if it != nil && err == nil {
			leakedIters = append(leakedIters, it)
		}
		w.probe("changes-on-unlocked-table")
	case 0:
		what = "Insert"
		w.guard("C03", what, func() { _, _, err = tc.T.Insert(wt.txn, o) })
	case 1:
		what = "Modify"
		w.guard("C03", what, func() { _, _, err = tc.T.Modify(wt.txn, o, mergeFn(0)) })
	case 2:
		what = "Delete"
		w.guard("C03", what, func() { _, _, err = tc.T.Delete(wt.txn, o) })
	case 3:
		what = "CompareAndSwap"
		w.guard("C03", what, func() { _, _, err = tc.T.CompareAndSwap(wt.txn, 1+uint64(c.Choose(3)), o) })
	case 4:
		what = "CompareAndDelete"
		w.guard("C03", what, func() { _, _, err = tc.T.CompareAndDelete(wt.txn, 1+uint64(c.Choose(3)), o) })
	}
	if w.S.Failed() {
		return false
	}
	w.S.Logf("T%d %s on unlocked table %s -> %s", wt.id, what, tc.M.Name, errClass(err))
	if errClass(err) != "ErrTableNotLockedForWriting" {
		w.violate("C03", "unlocked-write-error", "T%d %s(%v) on table %s which the transaction does not hold returned %s, want ErrTableNotLockedForWriting", wt.id, what, o, tc.M.Name, errClass(err))
		return false
	}
	return w.sameAnswers("C03", "unlocked-write-changed-state", wt.txn, refAns, fmt.Sprintf("T%d rejected write on unlocked table", wt.id))
}

// finishedWrites attempts writes through a finished transaction handle.
func (w *World) finishedWrites(t *simcore.Task, wt *WTxn) bool {
	c := w.C
	if len(wt.tables) == 0 {
		return true
	}
	ti := wt.tables[c.Choose(len(wt.tables))]
	tc := w.tables[ti]
	o := &Obj{ID: tc.IDs[c.Choose(len(tc.IDs))], Val: 7777, Stamp: wt.id}
	w.fault("write-after-finish")
	pre := w.db.ReadTxn()
	preSnap := w.bind(pre, "snapshot before write through finished transaction", nil)
	if preSnap == nil {
		return false
	}
	var refAns []answer
	if ti < len(preSnap.states) && preSnap.states[ti] != nil {
		var okk bool
		if refAns, okk = w.recordAnswers("C03", pre, ti, preSnap.states[ti], 6); !okk {
			return false
		}
	}
	var err error
	var what string
	k := c.Choose(7)
	panicked := false
	func() {
		defer func() {
			if r := recover(); r != nil {
				if isAbort(r) {
					panic(r)
				}
				panicked = true
			}
		}()
		switch k {
		case 0:
			what = "Insert"
			_, _, err = tc.T.Insert(wt.txn, o)
		case 1:
			what = "Modify"
			_, _, err = tc.T.Modify(wt.txn, o, mergeFn(0))
		case 2:
			what = "Delete"
			_, _, err = tc.T.Delete(wt.txn, o)
		case 3:
			what = "CompareAndSwap"
			_, _, err = tc.T.CompareAndSwap(wt.txn, 1, o)
		case 4:
			what = "CompareAndDelete"
			_, _, err = tc.T.CompareAndDelete(wt.txn, 1, o)
		case 5:
			what = "InsertWatch"
			_, _, _, err = tc.T.InsertWatch(wt.txn, o)
		case 6:
			what = "DeleteAll"
			err = tc.T.DeleteAll(wt.txn)
		}
	}()
	w.S.Logf("T%d %s through finished transaction -> %s panicked=%v", wt.id, what, errClass(err), panicked)
	if k <= 4 {
		if panicked {
			w.violate("C03", "finished-write-panic", "T%d %s through a finished transaction panicked instead of returning ErrTransactionClosed", wt.id, what)
			return false
		}
		if errClass(err) != "ErrTransactionClosed" {
			w.violate("C03", "finished-write-error", "T%d %s through a finished transaction returned %s, want ErrTransactionClosed", wt.id, what, errClass(err))
			return false
		}
	} else if panicked {
		w.probe("tolerated-panic-finished-" + what)
	}
	// calling Commit/Abort again is a no-op
	if c.Choose(2) == 0 {
		w.guard("C03", "second Abort", func() { wt.txn.Abort() })
	} else {
		w.guard("C03", "second Commit", func() { wt.txn.Commit() })
	}
	// nothing changed: a fresh snapshot still binds to the model and shows its contents
	rtxn := w.db.ReadTxn()
	sn := w.bind(rtxn, "snapshot after write through finished transaction", nil)
	if sn == nil {
		return false
	}
	if ti < len(sn.states) && ti < len(preSnap.states) && sn.states[ti] == preSnap.states[ti] {
		return w.sameAnswers("C03", "finished-write-changed-state", rtxn, refAns, "write through finished transaction")
	}
	return true
}

// pickTables draws the table argument list of a WriteTxn: any subset, any order, with duplicates.
func (w *World) pickTables(min int) []int {
	c := w.C
	n := len(w.tables)
	if n == 0 {
		return nil
	}
	k := min
	if n > min {
		k = min + c.Choose(n-min+1)
	}
	if k < 1 {
		k = 1
	}
	if w.P.MaxTxnTables > 0 && k > w.P.MaxTxnTables {
		k = w.P.MaxTxnTables
	}
	perm := make([]int, n)
	for i := range perm {
		perm[i] = i
	}
	for i := 0; i < k && i < n; i++ {
		j := i + c.Choose(n-i)
		perm[i], perm[j] = perm[j], perm[i]
	}
	out := append([]int(nil), perm[:k]...)
	if c.Choose(6) == 0 {
		out = append(out, out[c.Choose(len(out))]) // duplicate
		w.probe("duplicate-table-arg")
	}
	return out
}

// writerTask runs a number of write transactions.
func (w *World) writerTask(t *simcore.Task) {
	c := w.C
	p := w.P
	var open *WTxn
	defer func() {
		if open != nil && !open.finished && open.txn != nil {
			func() {
				defer func() { recover() }()
				open.txn.Abort()
			}()
		}
	}()
	nTxns := c.Range(p.TxnsMin, p.TxnsMax)
	for i := 0; i < nTxns; i++ {
		t.Step("txn")
		if w.ghost != nil && c.Choose(6) == 0 {
			if !w.rejectedWriteTxn(t, w.pickTables(p.MinTxnTables)) {
				return
			}
			t.Step("rejected")
		}
		wt := w.beginWrite(t, w.pickTables(p.MinTxnTables))
		open = wt
		if wt == nil || w.S.Failed() {
			return
		}
		t.Step("begun")
		nOps := c.Range(p.OpsMin, p.OpsMax)
		abortAt := -1
		if w.faultsOn && c.Bool(p.AbortPct, 100) {
			abortAt = c.Choose(nOps + 1)
		}
		for j := 0; j < nOps && !wt.finished; j++ {
			if j == abortAt {
				break
			}
			if !w.writeOp(t, wt) || w.S.Failed() {
				return
			}
			t.Step("op")
		}
		if !wt.finished {
			if abortAt >= 0 {
				w.abort(t, wt)
			} else {
				w.commit(t, wt)
			}
		}
		if w.S.Failed() {
			return
		}
		if w.faultsOn && c.Bool(p.FinishedPct, 100) {
			t.Step("finished")
			if !w.finishedWrites(t, wt) {
				return
			}
		}
	}
}

// holdSequence starts a query sequence through the write transaction and consumes only its first element(s).
func (w *World) holdSequence(wt *WTxn, ti int, st *TableState) {
	c := w.C
	tc := w.tables[ti]
	qs := w.candidateQueries(tc, st)
	q := qs[c.Choose(len(qs))]
	if q.Q == QGet {
		return
	}
	prop := "C03"
	if w.prop == "C01" {
		prop = "C01"
	}
	// the expectation is what the same query answers through the transaction right now
	var want []MObj
	if !w.guard(prop, q.String(), func() { want, _ = realQuery(tc, wt.txn, q, 0) }) {
		return
	}
	if len(want) < 1 {
		return
	}
	var seq iter.Seq2[*Obj, statedb.Revision]
	if !w.guard(prop, q.String(), func() { seq = realSeq(tc, wt.txn, q) }) {
		return
	}
	next, stop := iter.Pull2(seq)
	pl := &pulled{ti: ti, q: q, next: next, stop: stop, expect: want, atOps: wt.ops}
	if c.Choose(2) == 0 {
		// partly consumed now; otherwise the sequence is only obtained now and ranged over later
		o, r, ok := next()
		if !ok || want[0].Rev != r || !objEqual(want[0].O, o) {
			stop()
			w.violate(prop, "txn-iterator", "T%d: %v through the transaction yields %v@%d first, the same query just answered %s", wt.id, q, o, r, fmtRes(want))
			return
		}
		pl.taken = 1
	}
	wt.held = append(wt.held, pl)
	w.probe("txn-iterator-held")
}

// finishHeld consumes the rest of a held sequence.
func (w *World) finishHeld(wt *WTxn, pl *pulled) bool {
	defer pl.stop()
	prop := "C03"
	if w.prop == "C01" {
		prop = "C01"
	}
	for {
		var o *Obj
		var r statedb.Revision
		var ok bool
		if !w.guard(prop, "resuming "+pl.q.String(), func() { o, r, ok = pl.next() }) {
			return false
		}
		if !ok {
			break
		}
		if pl.taken >= len(pl.expect) || pl.expect[pl.taken].Rev != r || !objEqual(pl.expect[pl.taken].O, o) {
			w.violate(prop, "txn-iterator", "T%d: %v obtained through the transaction and resumed after later writes yields %v@%d at position %d; at its creation the query answered %s", wt.id, pl.q, o, r, pl.taken, fmtRes(pl.expect))
			return false
		}
		pl.taken++
	}
	if pl.taken != len(pl.expect) {
		w.violate(prop, "txn-iterator", "T%d: %v obtained through the transaction ended after %d elements; at its creation the query answered %s", wt.id, pl.q, pl.taken, fmtRes(pl.expect))
		return false
	}
	w.probe("txn-iterator-finished-after-writes")
	return true
}

// rejectedWriteTxn requests a write transaction that names, among registered tables, one that is not
// registered with the database. The request is refused (it panics); a refused request holds nothing
// afterwards, so every later transaction on the named tables is still granted (C10).
func (w *World) rejectedWriteTxn(t *simcore.Task, arg []int) bool {
	var metas []statedb.TableMeta
	for _, ti := range arg {
		metas = append(metas, w.tables[ti].T)
	}
	at := w.C.Choose(len(metas) + 1)
	metas = append(metas[:at], append([]statedb.TableMeta{w.ghost}, metas[at:]...)...)
	w.S.Logf("%s WriteTxn%v with an unregistered table at position %d", t.Name, arg, at)
	w.fault("writetxn-unregistered-table")
	t.Op = "WriteTxn"
	var got statedb.WriteTxn
	var pv any
	func() {
		defer func() {
			pv = recover()
			if pv != nil && simcore.IsAbort(pv) {
				panic(pv)
			}
		}()
		got = w.db.WriteTxn(metas...)
	}()
	t.Op = ""
	if pv == nil && got != nil {
		// granted after all: nothing the properties speak about; give it back
		leakedTxns = append(leakedTxns, got)
		func() {
			defer func() {
				if r := recover(); r != nil && simcore.IsAbort(r) {
					panic(r)
				}
			}()
			got.Abort()
		}()
		return !w.S.Failed()
	}
	w.probe("writetxn-rejected")
	if held := w.S.LocksOwnedBy(t); len(held) > 0 {
		w.violate("C10", "lock-leak", "%s: WriteTxn%v naming an unregistered table was refused (%v) but left %d table lock(s) held (%v): no later transaction on those tables can ever be granted", t.Name, arg, pv, len(held), held)
		return false
	}
	return !w.S.Failed()
}

// bulkOp inserts several thousand bare objects with keys outside the usual universe, or, when they are
// there, deletes them all: under a lagging change iterator that is a backlog of thousands of retained
// deletions which one collector round then has to remove.
func (w *World) bulkOp(t *simcore.Task, wt *WTxn, ti int) bool {
	tc := w.tables[ti]
	st := wt.staged[ti]
	var present []string
	for id := range st.Objs {
		if strings.HasPrefix(id, "~") {
			present = append(present, id)
		}
	}
	sort.Strings(present)
	if len(present) == 0 {
		n := 4100 + w.C.Choose(1200)
		for i := 0; i < n; i++ {
			o := &Obj{ID: fmt.Sprintf("~%05d", i), Stamp: wt.id}
			var gotErr error
			var gotHad bool
			if !w.guard("C03", "Insert (bulk)", func() { _, gotHad, gotErr = tc.T.Insert(wt.txn, o) }) {
				return false
			}
			if gotErr != nil || gotHad {
				w.violate("C03", "op-error", "T%d bulk Insert(%s,%q): hadOld=%v err=%v", wt.id, tc.M.Name, o.ID, gotHad, gotErr)
				return false
			}
			rev, ok := w.checkRev(wt, ti, true, "Insert (bulk)")
			if !ok {
				return false
			}
			wt.applyInsert(ti, o, rev)
		}
		w.S.Logf("T%d bulk insert of %d objects into %s", wt.id, n, tc.M.Name)
		w.probe("bulk-insert")
	} else {
		if tc.M.liveIters+len(wt.newIters) == 0 {
			// make sure some change iterator is there to retain the deletions
			if !w.createIterator(t, wt, ti) {
				return false
			}
		}
		for _, id := range present {
			var gotErr error
			var gotHad bool
			if !w.guard("C03", "Delete (bulk)", func() { _, gotHad, gotErr = tc.T.Delete(wt.txn, &Obj{ID: id}) }) {
				return false
			}
			if gotErr != nil || !gotHad {
				w.violate("C03", "op-error", "T%d bulk Delete(%s,%q): hadOld=%v err=%v", wt.id, tc.M.Name, id, gotHad, gotErr)
				return false
			}
			before := st.Rev
			rev, ok := w.checkRev(wt, ti, true, "Delete (bulk)")
			if !ok {
				return false
			}
			wt.applyDelete(ti, id, before, rev)
		}
		w.S.Logf("T%d bulk delete of %d objects from %s", wt.id, len(present), tc.M.Name)
		w.probe("bulk-delete")
	}
	w.progress++
	return true
}
