package dbworld

import (
	"bytes"
	"fmt"
	"sort"
	"strings"
)

// MObj is an object version in the model.
type MObj struct {
	O   *Obj
	Rev uint64
}

// MDel is a committed (or staged) deletion. The revision assigned to a
// deletion performed by DeleteAll is only known as a window (Lo,Hi].
type MDel struct {
	ID     string
	O      *Obj
	Lo, Hi uint64 // deletion revision in (Lo,Hi]
	Commit int    // chain index of the commit that contains it (-1 while staged)
}

// TableState is one immutable version of a table in the model.
type TableState struct {
	Objs     map[string]MObj
	Rev      uint64
	Pending  []string // pending initializers (registration order)
	Trackers int
	Dead     map[string]MDel // last deletion of every currently absent id
	CommitID int             // id of the transaction that produced this version (-1 initial)
	Idx      int             // position in the table's chain
	Deletes  []MDel          // deletions contained in the producing commit
	Returned bool            // the producing Commit has returned

	// frozen is set when the state enters a table's chain: it is immutable from then on and the sorted
	// index listings used by eval are memoised (large tables are evaluated many times in the final checks)
	frozen bool
	memo   map[IndexKind][]entry
}

func (s *TableState) clone() *TableState {
	c := &TableState{
		Objs:     make(map[string]MObj, len(s.Objs)+4),
		Rev:      s.Rev,
		Pending:  append([]string(nil), s.Pending...),
		Trackers: s.Trackers,
		Dead:     make(map[string]MDel, len(s.Dead)+2),
		CommitID: s.CommitID,
	}
	for k, v := range s.Objs {
		c.Objs[k] = v
	}
	for k, v := range s.Dead {
		c.Dead[k] = v
	}
	return c
}

func (s *TableState) initKey() string { return strings.Join(s.Pending, "\x1f") }

func (s *TableState) sortedIDs() []string {
	ids := make([]string, 0, len(s.Objs))
	for id := range s.Objs {
		ids = append(ids, id)
	}
	sort.Strings(ids)
	return ids
}

// digest is a content hash of the table version (for abstract-state counting).
func (s *TableState) digest() uint64 {
	h := uint64(1469598103934665603)
	mix := func(b []byte) {
		for _, c := range b {
			h ^= uint64(c)
			h *= 1099511628211
		}
		h ^= 0xfe
		h *= 1099511628211
	}
	for _, id := range s.sortedIDs() {
		mix([]byte(id))
		mix([]byte(s.Objs[id].O.String()))
	}
	mix([]byte(s.initKey()))
	return h
}

// MTable is the model of one table: its schema and the chain of versions in
// the order their commits were invoked (writers of a table are serialised, so
// this is the commit order).
type MTable struct {
	Name          string
	Pos           int
	Kinds         []IndexKind // secondary index kinds, in schema order (primary is implicit)
	Chain         []*TableState
	MinVis        int // lowest chain index a new snapshot may still show
	DelLog        []MDel
	RegSeq        uint64 // event at which registration returned
	liveIters     int
	AbortedWrites int // write transactions aborted after they had written to this table
	Writers       int // model's count of tasks between WriteTxn return and Commit/Abort return (mutual exclusion oracle)
}

func (t *MTable) last() *TableState { return t.Chain[len(t.Chain)-1] }

func (t *MTable) hasKind(k IndexKind) bool {
	if k == IdxPrimary {
		return true
	}
	for _, x := range t.Kinds {
		if x == k {
			return true
		}
	}
	return false
}

// entry is one (index key, object) pair of an index, by definition.
type entry struct {
	key []byte
	pfx Pfx
	id  string
	obj MObj
}

// partEntries lists the (key, object) pairs of a part-backed index in (key, primary key) order.
func partEntries(kind IndexKind, s *TableState) []entry {
	if s.frozen {
		if es, ok := s.memo[kind]; ok {
			return es
		}
	}
	var out []entry
	for id, mo := range s.Objs {
		for _, k := range modelKeys(kind, mo.O) {
			out = append(out, entry{key: k, id: id, obj: mo})
		}
	}
	sort.Slice(out, func(i, j int) bool {
		if c := bytes.Compare(out[i].key, out[j].key); c != 0 {
			return c < 0
		}
		return out[i].id < out[j].id
	})
	if s.frozen {
		if s.memo == nil {
			s.memo = map[IndexKind][]entry{}
		}
		s.memo[kind] = out
	}
	return out
}

func lpmEntries(kind IndexKind, s *TableState) []entry {
	if s.frozen {
		if es, ok := s.memo[kind]; ok {
			return es
		}
	}
	var out []entry
	for id, mo := range s.Objs {
		for _, p := range modelPfxs(kind, mo.O) {
			out = append(out, entry{pfx: p, id: id, obj: mo})
		}
	}
	sort.Slice(out, func(i, j int) bool {
		if out[i].pfx != out[j].pfx {
			return pfxLess(out[i].pfx, out[j].pfx)
		}
		return out[i].id < out[j].id
	})
	if s.frozen {
		if s.memo == nil {
			s.memo = map[IndexKind][]entry{}
		}
		s.memo[kind] = out
	}
	return out
}

func dedupe(es []entry) []entry {
	seen := map[string]bool{}
	var out []entry
	for _, e := range es {
		if !seen[e.id] {
			seen[e.id] = true
			out = append(out, e)
		}
	}
	return out
}

// Query kinds.
const (
	QGet = iota
	QList
	QPrefix
	QLowerBound
	QAll
	QByRevision // lower bound on the revision index
	numQ
)

var qNames = [...]string{"Get", "List", "Prefix", "LowerBound", "All", "ByRevision"}

// Query is a query in model terms.
type Query struct {
	Q    int
	Kind IndexKind
	Key  []byte // part-backed indexes
	Pfx  Pfx    // LPM indexes
	Rev  uint64 // ByRevision
}

func (q Query) String() string {
	switch {
	case q.Q == QAll:
		return "All"
	case q.Q == QByRevision:
		return fmt.Sprintf("ByRevision(%d)", q.Rev)
	case q.Kind.isLPM():
		return fmt.Sprintf("%s(%s,%v)", qNames[q.Q], q.Kind, q.Pfx)
	}
	return fmt.Sprintf("%s(%s,%q)", qNames[q.Q], q.Kind, q.Key)
}

// eval computes a query's result on a table version by definition.
// perKey reports, for LPM prefix queries, the listing with one entry per
// (prefix, object) pair; the main result lists each object once.
func (s *TableState) eval(q Query) (res []MObj, perKey []MObj) {
	switch q.Q {
	case QAll:
		for _, id := range s.sortedIDs() {
			res = append(res, s.Objs[id])
		}
		return res, nil
	case QByRevision:
		for _, mo := range s.Objs {
			if mo.Rev >= q.Rev {
				res = append(res, mo)
			}
		}
		sort.Slice(res, func(i, j int) bool { return res[i].Rev < res[j].Rev })
		return res, nil
	}
	if q.Kind.isLPM() {
		es := lpmEntries(q.Kind, s)
		switch q.Q {
		case QGet, QList:
			// longest stored prefix covering the query
			best := -1
			for i, e := range es {
				if e.pfx.covers(q.Pfx) {
					if best < 0 || e.pfx.Len > es[best].pfx.Len {
						best = i
					}
				}
			}
			if best < 0 {
				return nil, nil
			}
			for _, e := range es {
				if e.pfx == es[best].pfx {
					res = append(res, e.obj)
					if q.Q == QGet {
						break
					}
				}
			}
			return res, nil
		case QPrefix:
			var sel []entry
			for _, e := range es {
				if q.Pfx.covers(e.pfx) {
					sel = append(sel, e)
				}
			}
			for _, e := range sel {
				perKey = append(perKey, e.obj)
			}
			for _, e := range dedupe(sel) {
				res = append(res, e.obj)
			}
			return res, perKey
		case QLowerBound:
			var sel []entry
			qm := q.Pfx.masked()
			for _, e := range es {
				if !pfxLess(e.pfx, qm) {
					sel = append(sel, e)
				}
			}
			for _, e := range sel {
				perKey = append(perKey, e.obj)
			}
			for _, e := range dedupe(sel) {
				res = append(res, e.obj)
			}
			return res, perKey
		}
		return nil, nil
	}
	es := partEntries(q.Kind, s)
	var sel []entry
	switch q.Q {
	case QGet, QList:
		for _, e := range es {
			if bytes.Equal(e.key, q.Key) {
				sel = append(sel, e)
			}
		}
		if q.Q == QGet && len(sel) > 1 {
			sel = sel[:1]
		}
	case QPrefix:
		for _, e := range es {
			if bytes.HasPrefix(e.key, q.Key) {
				sel = append(sel, e)
			}
		}
		sel = dedupe(sel)
	case QLowerBound:
		for _, e := range es {
			if bytes.Compare(e.key, q.Key) >= 0 {
				sel = append(sel, e)
			}
		}
		sel = dedupe(sel)
	}
	for _, e := range sel {
		res = append(res, e.obj)
	}
	return res, nil
}

func fmtRes(res []MObj) string {
	var b strings.Builder
	b.WriteByte('[')
	for i, r := range res {
		if i > 0 {
			b.WriteByte(' ')
		}
		fmt.Fprintf(&b, "%q@%d", r.O.ID, r.Rev)
	}
	b.WriteByte(']')
	return b.String()
}

func sameRes(a, b []MObj) bool {
	if len(a) != len(b) {
		return false
	}
	for i := range a {
		if a[i].Rev != b[i].Rev || !objEqual(a[i].O, b[i].O) {
			return false
		}
	}
	return true
}

// sameResIDs compares results as sequences of (primary key, revision).
func sameResIDs(a, b []MObj) bool {
	if len(a) != len(b) {
		return false
	}
	for i := range a {
		if a[i].Rev != b[i].Rev || a[i].O.ID != b[i].O.ID {
			return false
		}
	}
	return true
}
