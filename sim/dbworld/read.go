package dbworld

import (
	"fmt"
	"iter"
	"sort"
	"strings"

	"github.com/cilium/statedb"
)

// Snap is a snapshot bound to the model versions it showed when it was taken.
type Snap struct {
	txn    statedb.ReadTxn
	states []*TableState // per table index; nil for tables not bound
	seq    uint64
	what   string
	// half-consumed iterators retained with the snapshot
	pulls []*pulled
	// real answers recorded when the snapshot was retained
	recorded []answer
}

type pulled struct {
	ti     int
	q      Query
	next   func() (*Obj, statedb.Revision, bool)
	stop   func()
	taken  int
	expect []MObj
	atOps  int // write transaction's operation count when the sequence was obtained
}

func sortedKey(p []string) string {
	s := append([]string(nil), p...)
	sort.Strings(s)
	return strings.Join(s, "\x1f")
}

// bind determines, by observation, which model version of every table the
// (freshly taken) snapshot shows, and checks the cross-table rules:
// every table shows a state produced by an invoked commit (C02), not older
// than what was already published (C05), and in-flight commits are visible
// in all of their tables or in none (C02). skip lists tables not to bind
// (tables a write transaction has locked: their view is the staged state).
func (w *World) bind(txn statedb.ReadTxn, what string, skip map[int]bool) *Snap {
	return w.bindMode(txn, what, skip, false)
}

// floor is what had been published at some earlier instant.
type floor struct {
	nReg   int
	minVis []int
}

func (w *World) floorNow() *floor {
	f := &floor{nReg: w.nReg}
	for _, tc := range w.tables {
		f.minVis = append(f.minVis, tc.M.MinVis)
	}
	return f
}

// bindSince binds a snapshot whose root was loaded at some instant after
// the floor was captured (the view of a write transaction is loaded inside
// WriteTxn, possibly long before it returns).
func (w *World) bindSince(txn statedb.ReadTxn, what string, skip map[int]bool, f *floor) *Snap {
	w.curFloor = f
	defer func() { w.curFloor = nil }()
	return w.bindMode(txn, what, skip, false)
}

// bindMode with historic=true binds a snapshot that was not taken just now
// (the one returned by Commit is the root that commit published, which may
// already be superseded when Commit returns): no freshness rule applies.
func (w *World) bindMode(txn statedb.ReadTxn, what string, skip map[int]bool, historic bool) *Snap {
	sn := &Snap{txn: txn, what: what, seq: w.S.Seq()}
	var nReal int
	if !w.guard("C05", "GetTables", func() { nReal = len(w.db.GetTables(txn)) }) {
		return nil
	}
	needReg := w.nReg
	if w.curFloor != nil {
		needReg = w.curFloor.nReg
	}
	if !historic && nReal < needReg {
		w.violate("C05", "table-lost", "%s shows %d tables although %d registrations had returned before", what, nReal, needReg)
		return nil
	}
	n := len(w.tables)
	if nReal < n {
		n = nReal
	}
	sn.states = make([]*TableState, n)
	for i := 0; i < n; i++ {
		if skip[i] {
			continue
		}
		tc := w.tables[i]
		var rev uint64
		var pend []string
		var initialized bool
		if !w.guard("C01", "Revision/Initialized", func() {
			rev = tc.T.Revision(txn)
			initialized, _ = tc.T.Initialized(txn)
			pend = tc.T.PendingInitializers(txn)
		}) {
			return nil
		}
		ik := sortedKey(pend)
		if initialized != (len(pend) == 0) {
			w.violate("C19", "initialized-vs-pending", "%s table %s: Initialized=%v but PendingInitializers=%q", what, tc.M.Name, initialized, pend)
			return nil
		}
		var st *TableState
		for j := len(tc.M.Chain) - 1; j >= 0; j-- {
			e := tc.M.Chain[j]
			if e.Rev == rev && sortedKey(e.Pending) == ik {
				st = e
				break
			}
		}
		if st == nil {
			// distinguish a wrong initialization state from an unknown table version
			for j := len(tc.M.Chain) - 1; j >= 0; j-- {
				if tc.M.Chain[j].Rev == rev {
					// a wrong initialization state, or (C05) a committed registration/mark overwritten by a stale table entry
					w.violate(w.attr("C19", "C05"), "init-state", "%s table %s at revision %d reports pending initializers %q; the model has %q there",
						what, tc.M.Name, rev, pend, tc.M.Chain[j].Pending)
					return nil
				}
			}
			w.violate("C02", "unknown-state", "%s shows table %s at revision %d which no committed or in-flight transaction produced (latest model revision %d, min visible index %d)",
				what, tc.M.Name, rev, tc.M.last().Rev, tc.M.MinVis)
			return nil
		}
		minVis := tc.M.MinVis
		if w.curFloor != nil {
			minVis = 0
			if i < len(w.curFloor.minVis) {
				minVis = w.curFloor.minVis[i]
			}
		}
		if !historic && st.Idx < minVis && tc.M.Chain[minVis].Rev != st.Rev {
			// a lost committed write (C05) is also a table revision that went backwards (C09) and a snapshot
			// from which a committed transaction vanished again (C02)
			w.violate(w.attr("C05", "C09", "C02"), "stale-state", "%s shows table %s at revision %d (version %d) although version %d (revision %d) was already published: a committed write was lost",
				what, tc.M.Name, rev, st.Idx, minVis, tc.M.Chain[minVis].Rev)
			return nil
		}
		sn.states[i] = st
	}
	// atomicity of in-flight commits
	for _, mc := range w.inflight {
		inc, exc := -1, -1
		for ti, idx := range mc.Entries {
			if !mc.RevChg[ti] || ti >= n || sn.states[ti] == nil {
				continue
			}
			if sn.states[ti].Rev >= w.tables[ti].M.Chain[idx].Rev {
				inc = ti
			} else {
				exc = ti
			}
		}
		if inc >= 0 && exc >= 0 {
			w.violate("C02", "partial-commit", "%s shows transaction T%d's writes in table %s but not in table %s", what, mc.ID, w.tables[inc].M.Name, w.tables[exc].M.Name)
			return nil
		}
		if inc >= 0 {
			w.probe("snapshot-saw-inflight-commit")
		} else if exc >= 0 {
			w.probe("snapshot-before-inflight-commit")
		}
	}
	// what this snapshot showed is published from now on
	for i, st := range sn.states {
		if historic {
			break
		}
		if st != nil && st.Idx > w.tables[i].M.MinVis {
			w.tables[i].M.MinVis = st.Idx
		}
	}
	return sn
}

// realQuery executes a model query against the real table.
func realQuery(tc *TableCtx, txn statedb.ReadTxn, q Query, limit int) (res []MObj, watch <-chan struct{}) {
	collect := func(seq iter.Seq2[*Obj, statedb.Revision]) {
		for o, r := range seq {
			res = append(res, MObj{O: o, Rev: r})
			if limit > 0 && len(res) >= limit {
				break
			}
		}
	}
	var sq statedb.Query[*Obj]
	switch {
	case q.Q == QAll:
		seq, wch := tc.T.AllWatch(txn)
		collect(seq)
		return res, wch
	case q.Q == QByRevision:
		seq, wch := tc.T.LowerBoundWatch(txn, statedb.ByRevision[*Obj](q.Rev))
		collect(seq)
		return res, wch
	case q.Kind.isLPM():
		sq = lpmQuery(q.Kind, q.Pfx, tc.NetIP)
	default:
		sq = partQuery(q.Kind, q.Key)
	}
	switch q.Q {
	case QGet:
		o, r, wch, ok := tc.T.GetWatch(txn, sq)
		if ok {
			res = append(res, MObj{O: o, Rev: r})
		}
		return res, wch
	case QList:
		seq, wch := tc.T.ListWatch(txn, sq)
		collect(seq)
		return res, wch
	case QPrefix:
		seq, wch := tc.T.PrefixWatch(txn, sq)
		collect(seq)
		return res, wch
	case QLowerBound:
		seq, wch := tc.T.LowerBoundWatch(txn, sq)
		collect(seq)
		return res, wch
	}
	return nil, nil
}

// candidateQueries lists queries worth asking of a table version.
func (w *World) candidateQueries(tc *TableCtx, st *TableState) []Query {
	var qs []Query
	qs = append(qs, Query{Q: QAll})
	qs = append(qs, Query{Q: QByRevision, Rev: 0}, Query{Q: QByRevision, Rev: st.Rev}, Query{Q: QByRevision, Rev: st.Rev + 1})
	if st.Rev > 1 {
		qs = append(qs, Query{Q: QByRevision, Rev: st.Rev / 2})
	}
	kinds := append([]IndexKind{IdxPrimary}, tc.M.Kinds...)
	for _, k := range kinds {
		if k.isLPM() {
			seen := map[Pfx]bool{}
			add := func(qk int, p Pfx) {
				qs = append(qs, Query{Q: qk, Kind: k, Pfx: p})
			}
			stored := map[Pfx]bool{}
			for _, e := range lpmEntries(k, st) {
				stored[e.pfx] = true
			}
			var cands []Pfx
			for p := range stored {
				cands = append(cands, p)
			}
			cands = append(cands, tc.Pfx...)
			sort.Slice(cands, func(i, j int) bool { return pfxLess(cands[i], cands[j]) })
			for _, p := range cands {
				if seen[p] {
					continue
				}
				seen[p] = true
				// Get/List: stored prefixes and full-length keys only
				if stored[p] {
					add(QGet, p)
					add(QList, p)
				}
				full := Pfx{p.Bits | (uint32(0x5a5a5a5a) & (uint32(0xffffffff) >> p.Len)), 32}
				if p.Len == 32 {
					full = p
				}
				add(QGet, full)
				add(QList, full)
				add(QPrefix, p)
				add(QLowerBound, p)
				// ancestors and diverging siblings
				if p.Len > 0 {
					add(QPrefix, Pfx{p.Bits, p.Len - 1}.masked())
					sib := Pfx{p.Bits ^ (1 << (32 - uint32(p.Len))), p.Len}.masked()
					add(QPrefix, sib)
					if stored[sib] {
						add(QGet, sib)
					}
					add(QGet, Pfx{sib.Bits | 1, 32})
				}
			}
			continue
		}
		seen := map[string]bool{}
		add := func(key []byte) {
			if seen[string(key)] {
				return
			}
			seen[string(key)] = true
			for _, qk := range []int{QGet, QList, QPrefix, QLowerBound} {
				qs = append(qs, Query{Q: qk, Kind: k, Key: append([]byte(nil), key...)})
			}
		}
		add([]byte{})
		for _, e := range partEntries(k, st) {
			add(e.key)
			for i := 0; i < len(e.key); i++ {
				add(e.key[:i])
			}
			add(append(append([]byte(nil), e.key...), 0x00))
			add(append(append([]byte(nil), e.key...), 0x01))
			if len(e.key) > 0 {
				up := append([]byte(nil), e.key...)
				up[len(up)-1]++
				add(up)
				dn := append([]byte(nil), e.key...)
				dn[len(dn)-1]--
				add(dn)
			}
		}
		var uni []string
		switch k {
		case IdxPrimary:
			uni = tc.IDs
		case IdxNonUnique:
			uni = tc.Sec
		case IdxMulti:
			uni = tc.Tag
		}
		for _, u := range uni {
			add([]byte(u))
		}
		add([]byte{0x00})
		add([]byte{0x01})
		add([]byte{0xff})
	}
	return qs
}

// checkQuery runs one query and compares it with the model version.
func (w *World) checkQuery(prop string, txn statedb.ReadTxn, tc *TableCtx, st *TableState, q Query, what string) bool {
	want, perKey := st.eval(q)
	var got []MObj
	limit := 0
	if len(want) > 1 && w.C.Choose(8) == 0 {
		// partial consumption: stop early
		limit = 1 + w.C.Choose(len(want))
		w.probe("early-break")
	}
	if !w.guard(prop, q.String(), func() { got, _ = realQuery(tc, txn, q, limit) }) {
		return false
	}
	if limit > 0 {
		if len(want) > limit {
			want = want[:limit]
		}
		if perKey != nil && len(perKey) > limit {
			perKey = perKey[:limit]
		}
	}
	if sameRes(got, want) {
		return true
	}
	if perKey != nil && sameRes(got, perKey) {
		return true
	}
	if w.prop != "C04" {
		// an object written by a transaction that was aborted: exactly C02's "Abort leaves no trace"
		for _, g := range got {
			if g.O != nil && w.abortedTxn[g.O.Stamp] {
				w.violate("C02", "aborted-write-visible", "%s table %s (revision %d) %v returns %v@%d, written by transaction T%d which was aborted: got %s want %s", what, tc.M.Name, st.Rev, q, g.O, g.Rev, g.O.Stamp, fmtRes(got), fmtRes(want))
				return false
			}
		}
	}
	w.violate("C04", "query-mismatch", "%s table %s (revision %d) %v: got %s want %s", what, tc.M.Name, st.Rev, q, fmtRes(got), fmtRes(want))
	return false
}

// answer is the real answer to a query, recorded for later real-vs-real comparison.
type answer struct {
	ti  int
	q   Query
	res []MObj
	num int
	rev uint64
}

// recordAnswers asks n sampled queries of a table through txn and records the real answers.
func (w *World) recordAnswers(prop string, txn statedb.ReadTxn, ti int, st *TableState, n int) ([]answer, bool) {
	tc := w.tables[ti]
	qs := w.candidateQueries(tc, st)
	var out []answer
	// always: the complete listing of every index (one query that covers the whole index), then a sample
	var whole []Query
	whole = append(whole, Query{Q: QAll}, Query{Q: QByRevision, Rev: 0})
	for _, k := range append([]IndexKind{IdxPrimary}, tc.M.Kinds...) {
		if k.isLPM() {
			whole = append(whole, Query{Q: QPrefix, Kind: k, Pfx: Pfx{0, 0}}, Query{Q: QLowerBound, Kind: k, Pfx: Pfx{0, 0}})
		} else {
			whole = append(whole, Query{Q: QPrefix, Kind: k, Key: []byte{}}, Query{Q: QLowerBound, Kind: k, Key: []byte{}})
		}
	}
	for i := 0; i < n+len(whole); i++ {
		var q Query
		if i < len(whole) {
			q = whole[i]
		} else {
			q = qs[w.C.Choose(len(qs))]
		}
		a := answer{ti: ti, q: q}
		if !w.guard(prop, q.String(), func() {
			a.res, _ = realQuery(tc, txn, q, 0)
			a.num = tc.T.NumObjects(txn)
			a.rev = tc.T.Revision(txn)
		}) {
			return nil, false
		}
		out = append(out, a)
	}
	return out, true
}

// sameAnswers re-asks recorded queries through txn: the answers must be identical.
func (w *World) sameAnswers(prop, oracle string, txn statedb.ReadTxn, rec []answer, what string) bool {
	for _, a := range rec {
		tc := w.tables[a.ti]
		var res []MObj
		var num int
		var rev uint64
		if !w.guard(prop, a.q.String(), func() {
			res, _ = realQuery(tc, txn, a.q, 0)
			num = tc.T.NumObjects(txn)
			rev = tc.T.Revision(txn)
		}) {
			return false
		}
		if !sameRes(res, a.res) {
			w.violate(prop, oracle, "%s: table %s %v answered %s before and answers %s now", what, tc.M.Name, a.q, fmtRes(a.res), fmtRes(res))
			return false
		}
		if num != a.num || rev != a.rev {
			w.violate(prop, oracle, "%s: table %s had NumObjects=%d Revision=%d before and has NumObjects=%d Revision=%d now", what, tc.M.Name, a.num, a.rev, num, rev)
			return false
		}
	}
	return true
}

// checkTable compares NumObjects/Revision and a sample of queries with the model version.
func (w *World) checkTable(prop string, txn statedb.ReadTxn, tc *TableCtx, st *TableState, nQueries int, what string) bool {
	var num int
	var rev uint64
	if !w.guard(prop, "NumObjects/Revision", func() {
		num = tc.T.NumObjects(txn)
		rev = tc.T.Revision(txn)
	}) {
		return false
	}
	if num != len(st.Objs) {
		if w.prop == "C02" && tc.M.AbortedWrites > 0 {
			// in a C02 run, after a write transaction on this table was aborted: "later transactions behave
			// as if it had never run" covers the object count
			w.violate("C02", "numobjects-after-abort", "%s table %s: NumObjects=%d want %d; %d write transaction(s) that had written to the table were aborted before", what, tc.M.Name, num, len(st.Objs), tc.M.AbortedWrites)
			return false
		}
		w.violate("C04", "numobjects", "%s table %s: NumObjects=%d want %d", what, tc.M.Name, num, len(st.Objs))
		return false
	}
	if rev != st.Rev {
		w.violate("C09", "revision", "%s table %s: Revision=%d want %d", what, tc.M.Name, rev, st.Rev)
		return false
	}
	qs := w.candidateQueries(tc, st)
	if nQueries <= 0 || nQueries >= len(qs) {
		for _, q := range qs {
			if !w.checkQuery(prop, txn, tc, st, q, what) {
				return false
			}
		}
		return true
	}
	for i := 0; i < nQueries; i++ {
		q := qs[w.C.Choose(len(qs))]
		if !w.checkQuery(prop, txn, tc, st, q, what) {
			return false
		}
	}
	return true
}

func (sn *Snap) String() string {
	var b strings.Builder
	fmt.Fprintf(&b, "%s@%d[", sn.what, sn.seq)
	for i, st := range sn.states {
		if st != nil {
			fmt.Fprintf(&b, " t%d:v%d/r%d", i, st.Idx, st.Rev)
		}
	}
	b.WriteString(" ]")
	return b.String()
}
