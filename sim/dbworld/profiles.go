package dbworld

// Profile holds the workload, fault and oracle emphasis of one property's check.
type Profile struct {
	StepLimit                  int
	TablesMin, TablesMax       int
	WritersMin, WritersMax     int
	ReadersMin, ReadersMax     int
	WatchersMin, WatchersMax   int
	ConsumersMin, ConsumersMax int
	Registrar                  bool
	BulkOneIn                  int  // one run in this many builds a backlog of thousands of deleted objects (0: never)
	GhostTable                 bool // some WriteTxn requests name a table that is not registered and are rejected
	RegistrarOdds              int  // the registrar takes part in one of this many runs (default 2)
	Prober                     bool
	Probes                     int
	TxnsMin, TxnsMax           int
	OpsMin, OpsMax             int
	MinTxnTables               int
	MaxTxnTables               int
	ReadsMin, ReadsMax         int
	WatchesMin, WatchesMax     int
	NextsMin, NextsMax         int
	OpWeights                  [numOps]int
	IndexPct                   int // probability (percent) of each secondary index kind being in a schema
	AbortPct                   int
	FinishedPct                int // probability of attempting writes through the finished transaction
	GuardZero                  bool
	BatteryQueries             int // queries sampled per table check (0 = all)
	FinalQueries               int
	RetainWeight               int
	ReadProp                   string // property to which query mismatches on fresh state are attributed
	AbortCheck                 bool
	CommitCheck                bool
	InitWatch                  bool
	InitCheck                  bool
	GraveyardCheck             bool
	PausePoints                []string
}

var commitPoints = []string{"commit.begin", "commit.tableCommitted", "commit.rootLock", "commit.tableMerged", "commit.preStore", "commit.postStore", "commit.rootUnlock", "notify.begin", "notify.end", "commit.notified", "table.unlock", "commit.initClosed"}
var writePoints = []string{"writetxn.begin", "table.lock", "writetxn.locked", "writetxn.rootLoaded"}
var gcPoints = []string{"gc.triggered", "gc.scanned", "gc.committed", "dt.marked"}

func weights(m map[int]int) (w [numOps]int) {
	for k, v := range m {
		w[k] = v
	}
	return
}

func profileFor(prop, tier string) *Profile {
	thorough := tier == "thorough"
	p := &Profile{
		StepLimit: 1500, TablesMin: 1, TablesMax: 3, WritersMin: 1, WritersMax: 3,
		TxnsMin: 2, TxnsMax: 5, OpsMin: 1, OpsMax: 6, MinTxnTables: 1,
		ReadsMin: 3, ReadsMax: 8, WatchesMin: 2, WatchesMax: 6, NextsMin: 4, NextsMax: 10,
		OpWeights: weights(map[int]int{OpInsert: 30, OpInsertWatch: 3, OpModify: 12, OpDelete: 15, OpDeleteAll: 2, OpCAS: 6, OpCAD: 6, OpReadBack: 6, OpBurst: 3}),
		IndexPct:  50, AbortPct: 20, FinishedPct: 0, BatteryQueries: 10, FinalQueries: 40, ReadProp: "C04",
		PausePoints: append(append([]string{}, commitPoints...), writePoints...),
		Probes:      20,
	}
	if thorough {
		p.StepLimit = 4000
		p.TxnsMax = 9
		p.OpsMax = 10
		p.ReadsMax = 14
		p.FinalQueries = 0
		p.BatteryQueries = 20
	}
	switch prop {
	case "C01":
		p.Registrar, p.RegistrarOdds = true, 4
		p.OpWeights[OpBurst] = 6
		p.OpWeights[OpReadBack] = 14
		p.ReadersMin, p.ReadersMax = 1, 3
		p.RetainWeight = 4
		p.ReadProp = "C04"
		p.IndexPct = 65
		p.ReadsMin, p.ReadsMax = 6, 16
		p.ConsumersMax = 1
		p.OpWeights[OpChanges] = 1
	case "C02":
		p.Registrar, p.RegistrarOdds = true, 3
		p.TablesMin, p.TablesMax = 2, 4
		p.MinTxnTables = 2
		p.WritersMin, p.WritersMax = 1, 3
		p.ReadersMax = 1
		p.Prober = true
		p.Probes = 40
		p.AbortPct = 35
		p.AbortCheck = true
		p.CommitCheck = true
		p.GraveyardCheck = true
		p.ConsumersMax = 1
		p.OpWeights[OpChanges] = 1
		p.OpWeights[OpRegInit] = 2
		p.OpWeights[OpDoneInit] = 2
		p.InitCheck = true
		p.ReadProp = "C02"
		p.PausePoints = commitPoints
	case "C03":
		p.WritersMin, p.WritersMax = 1, 3
		p.ReadersMax = 1
		p.OpsMin, p.OpsMax = 1, 8
		p.OpWeights = weights(map[int]int{OpInsert: 20, OpInsertWatch: 6, OpModify: 15, OpDelete: 14, OpDeleteAll: 5, OpCAS: 14, OpCAD: 14, OpUnlocked: 5, OpReadBack: 10})
		p.FinishedPct = 25
		p.GuardZero = true
		// change iterators come and go: deletes then take the graveyard paths of the write operations
		p.ConsumersMax = 1
		p.OpWeights[OpChanges] = 2
		p.NextsMin, p.NextsMax = 3, 12
		p.ReadProp = "C03"
		p.AbortPct = 25
		p.CommitCheck = true
		p.TablesMin = 1
	case "C04":
		p.OpWeights[OpBurst] = 6
		p.IndexPct = 80
		p.WritersMax = 2
		p.ReadersMin, p.ReadersMax = 1, 2
		p.BatteryQueries = 25
		p.OpWeights[OpReadBack] = 20
		p.CommitCheck = true
		p.ReadProp = "C04"
		if thorough {
			p.BatteryQueries = 50
		}
	case "C05":
		p.GhostTable = true
		p.TablesMin, p.TablesMax = 1, 4
		p.WritersMin, p.WritersMax = 2, 6
		p.Registrar = true
		p.ReadersMax = 1
		p.Prober = true
		p.OpsMin, p.OpsMax = 1, 3
		p.IndexPct = 20
		p.BatteryQueries = 4
		p.ReadProp = "C05"
		// committed writes that do not move the table revision: initializer registrations and marks,
		// change-iterator registrations and closes
		p.OpWeights[OpRegInit] = 3
		p.OpWeights[OpDoneInit] = 3
		p.OpWeights[OpChanges] = 2
		p.InitCheck = true
		p.ConsumersMax = 1
	case "C06":
		p.OpWeights[OpBurst] = 8
		p.WatchesMin, p.WatchesMax = 3, 10
		p.WatchersMin, p.WatchersMax = 1, 3
		p.WritersMin, p.WritersMax = 1, 3
		p.IndexPct = 65
		p.AbortPct = 30
		p.OpWeights[OpInsertWatch] = 10
		p.PausePoints = commitPoints
		p.ReadersMax = 0
		p.ConsumersMax = 1
		p.OpWeights[OpChanges] = 1
	case "C07":
		p.ConsumersMin, p.ConsumersMax = 1, 3
		p.WritersMin, p.WritersMax = 1, 3
		p.OpWeights[OpChanges] = 3
		p.OpWeights[OpDelete] = 25
		p.IndexPct = 25
		p.ReadersMax = 1
		p.GraveyardCheck = true
		p.PausePoints = append(append([]string{}, commitPoints...), gcPoints...)
		p.TablesMax = 2
	case "C08":
		p.BulkOneIn = 100
		p.ConsumersMin, p.ConsumersMax = 1, 3
		p.WritersMin, p.WritersMax = 1, 3
		p.OpWeights[OpChanges] = 3
		p.OpWeights[OpDelete] = 30
		p.OpWeights[OpDeleteAll] = 4
		p.IndexPct = 15
		p.ReadersMin, p.ReadersMax = 1, 1
		p.GraveyardCheck = true
		p.PausePoints = gcPoints
		p.TablesMax = 2
	case "C09":
		p.WritersMin, p.WritersMax = 1, 3
		p.Registrar, p.RegistrarOdds = true, 3
		p.OpWeights = weights(map[int]int{OpInsert: 25, OpModify: 12, OpDelete: 18, OpDeleteAll: 4, OpCAS: 12, OpCAD: 12, OpReadBack: 6, OpChanges: 1})
		p.ReadersMin, p.ReadersMax = 1, 2
		p.ConsumersMax = 1
		p.GraveyardCheck = true
		p.AbortPct = 25
		p.ReadProp = "C09"
		p.CommitCheck = true
	case "C10":
		p.GhostTable = true
		p.OpWeights[OpUnlocked] = 4
		p.BulkOneIn = 60
		p.TablesMin, p.TablesMax = 2, 6
		p.WritersMin, p.WritersMax = 2, 6
		p.Registrar = true
		p.ConsumersMax = 2
		p.ReadersMax = 1
		p.OpsMin, p.OpsMax = 0, 2
		p.IndexPct = 10
		p.BatteryQueries = 2
		p.OpWeights[OpChanges] = 4
		p.OpWeights[OpDelete] = 25
		p.AbortPct = 30
		p.TxnsMin, p.TxnsMax = 3, 8
		p.PausePoints = append(append(append([]string{}, commitPoints...), writePoints...), gcPoints...)
	case "C19":
		p.OpWeights[OpRegInit] = 14
		p.OpWeights[OpDoneInit] = 18
		p.WatchersMin, p.WatchersMax = 1, 2
		p.InitWatch = true
		p.InitCheck = true
		p.AbortPct = 35
		p.IndexPct = 10
		p.TablesMax = 3
		p.ReadersMin, p.ReadersMax = 1, 2
		p.RetainWeight = 2
		p.Prober = true
		p.PausePoints = commitPoints
		p.CommitCheck = true
		p.ReadProp = "C19"
	}
	return p
}
