package dbworld

import (
	"fmt"
	"sort"
	"time"

	"github.com/cilium/statedb"

	"verif/sim/simcore"
)

// IterCtx is a change iterator with the oracle's bookkeeping.
type IterCtx struct {
	id        int
	it        statedb.ChangeIterator[*Obj]
	ti        int
	createRev uint64 // table revision at creation: later deletions must be delivered
	createIdx int
	live      bool
	dead      bool // created in a transaction that was aborted
	closed    bool
	closing   bool
	owned     bool

	preDeleted  []string // objects the creating transaction had deleted before it called Changes()
	creatorNext bool     // Next was called through the creating transaction

	view      map[string]MObj     // replay of everything delivered so far
	delSeen   map[string][]uint64 // delivered deletions per primary key
	lastRev   uint64
	lastIdx   int // chain index of the last snapshot passed to Next (monotone)
	refIdx    int // chain index of the snapshot of the last refresh (a Next that reported pending changes, or creation)
	nexts     int
	caughtUp  bool // the last Next returned an open channel
	consuming bool // a consumer is inside the sequence returned by Next (a deletion may be marked as handed an instant before the consumer's callback sees it)
}

// createIterator calls Changes() inside the write transaction.
func (w *World) createIterator(t *simcore.Task, wt *WTxn, ti int) bool {
	tc := w.tables[ti]
	st := wt.staged[ti]
	if tc.M.liveIters+len(wt.newIters) >= 4 {
		return true
	}
	var it statedb.ChangeIterator[*Obj]
	var err error
	cprop := "C07"
	if w.prop == "C02" || w.prop == "C08" || w.prop == "C10" {
		cprop = w.prop
	}
	if !w.guard(cprop, "Changes", func() { it, err = tc.T.Changes(wt.txn) }) {
		return false
	}
	if err != nil {
		w.violate("C07", "changes-error", "Changes(%s) in T%d: %v", tc.M.Name, wt.id, err)
		return false
	}
	ic := &IterCtx{id: len(w.iters) + len(wt.newIters) + wt.id*100, it: it, ti: ti, createRev: st.Rev, view: map[string]MObj{}, delSeen: map[string][]uint64{}, refIdx: wt.base[ti].Idx, lastIdx: wt.base[ti].Idx}
	for id := range wt.base[ti].Objs {
		if _, still := st.Objs[id]; !still {
			ic.preDeleted = append(ic.preDeleted, id)
		}
	}
	sort.Strings(ic.preDeleted)
	st.Trackers++
	wt.newIters = append(wt.newIters, ic)
	w.allIters = append(w.allIters, ic)
	w.S.Logf("T%d Changes(%s) -> iterator I%d at revision %d", wt.id, tc.M.Name, ic.id, st.Rev)
	w.probe("iterator-created")
	if (w.prop == "C07" || w.prop == "C08") && w.C.Choose(3) == 0 {
		// Next through the creating transaction itself: it holds the table, so only what was committed
		// before it is observed
		ic.creatorNext = true
		w.probe("next-with-creating-writetxn")
		if len(ic.preDeleted) > 0 {
			w.probe("next-with-creating-writetxn-after-own-deletes")
		}
		if _, ok := w.nextOn(ic, wt.txn, wt.base[ti], w.C.Choose(3), fmt.Sprintf("the creating WriteTxn T%d", wt.id)); !ok {
			return false
		}
	}
	return true
}

// creatorResidue tells whether the only difference between what the iterator delivered and st are objects
// that the creating transaction had deleted before it called Changes() and that were then delivered by
// Next(creating transaction): the circumstance of the known finding recorded for C07.
func (w *World) creatorResidue(ic *IterCtx, st *TableState) string {
	if !ic.creatorNext || len(ic.preDeleted) == 0 {
		return ""
	}
	pre := map[string]bool{}
	for _, id := range ic.preDeleted {
		pre[id] = true
	}
	extra := 0
	for id, v := range ic.view {
		mo, ok := st.Objs[id]
		switch {
		case ok && mo.Rev == v.Rev:
		case !ok && pre[id]:
			extra++
		default:
			return ""
		}
	}
	for id := range st.Objs {
		if _, ok := ic.view[id]; !ok {
			return ""
		}
	}
	if extra == 0 {
		return ""
	}
	return " [residue: objects the creating transaction deleted before Changes() and Next(creating transaction) delivered]"
}

// nextOn calls Next with the given transaction, consumes up to 'limit'
// changes (0 = all) and applies the oracles. X is the committed table version
// the transaction shows (for a write transaction holding the table: the
// version it started from).
func (w *World) nextOn(ic *IterCtx, txn statedb.ReadTxn, X *TableState, limit int, what string) (open <-chan struct{}, ok bool) {
	tc := w.tables[ic.ti]
	if X.Idx < ic.lastIdx {
		return nil, true // not monotone: do not use
	}
	ic.lastIdx = X.Idx
	ic.nexts++
	var seq func(yield func(statedb.Change[*Obj], statedb.Revision) bool)
	var watch <-chan struct{}
	if !w.guard("C07", "Next", func() { seq, watch = ic.it.Next(txn) }) {
		return nil, false
	}
	pending := isClosed(watch)
	if pending {
		ic.refIdx = X.Idx
	}
	n := 0
	full := true
	failed := false
	consume := func() {
		seq(func(ch statedb.Change[*Obj], rev statedb.Revision) bool {
			n++
			if !pending {
				w.violate("C07", "open-channel-with-changes", "I%d Next(%s) returned an open watch channel together with change %v@%d", ic.id, what, ch.Object, rev)
				failed = true
				return false
			}
			if rev != ch.Revision {
				w.violate("C07", "revision-mismatch", "I%d delivered change with Revision %d but sequence revision %d", ic.id, ch.Revision, rev)
				failed = true
				return false
			}
			// (a) strictly increasing
			if rev <= ic.lastRev {
				w.violate("C07", "order", "I%d delivered revision %d after revision %d", ic.id, rev, ic.lastRev)
				failed = true
				return false
			}
			ic.lastRev = rev
			id := ch.Object.ID
			if ch.Deleted {
				// (d) a committed deletion, not later than the snapshot
				found := false
				for _, d := range tc.M.DelLog {
					if d.ID == id && d.Lo < rev && rev <= d.Hi && d.Commit >= 0 && d.Commit <= X.Idx {
						found = true
						break
					}
				}
				if !found {
					w.violate("C07", "uncommitted-delete", "I%d Next(%s) delivered deletion of %q at revision %d which is not a deletion committed at or before the snapshot (table version %d, revision %d)",
						ic.id, what, id, rev, X.Idx, X.Rev)
					failed = true
					return false
				}
				if rev <= ic.createRev {
					w.violate("C07", "old-delete", "I%d delivered deletion of %q at revision %d, not after its creation at revision %d", ic.id, id, rev, ic.createRev)
					failed = true
					return false
				}
				delete(ic.view, id)
				ic.delSeen[id] = append(ic.delSeen[id], rev)
				w.probe("delete-delivered")
			} else {
				mo, present := X.Objs[id]
				if !present || mo.Rev != rev || !objEqual(mo.O, ch.Object) {
					w.violate("C07", "uncommitted-update", "I%d Next(%s) delivered update %v@%d which is not in the snapshot's committed state (table version %d, revision %d, has %v@%d)",
						ic.id, what, ch.Object, rev, X.Idx, X.Rev, mo.O, mo.Rev)
					failed = true
					return false
				}
				ic.view[id] = mo
			}
			if limit > 0 && n >= limit {
				full = false
				return false
			}
			return true
		})
	}
	ic.consuming = true
	okc := w.guard("C07", "consuming changes", consume)
	ic.consuming = false
	if !okc || failed {
		return nil, false
	}
	w.S.Logf("I%d Next(%s v%d) pending=%v delivered=%d full=%v", ic.id, what, X.Idx, pending, n, full)
	if !pending {
		// (f) open channel: nothing delivered, and the replay equals the table's current committed state
		ic.caughtUp = true
		// The channel is the one of the last refresh. Everything up to that snapshot was delivered...
		ref := tc.M.Chain[ic.refIdx]
		if !w.viewEquals(ic, ref) {
			w.violate("C07", "open-channel-behind", "I%d Next(%s) returned an open watch channel but what was delivered so far (%s) differs from the snapshot of its last refresh (table version %d: %s): the consumer would wait without ever receiving the difference%s",
				ic.id, what, fmtView(ic.view), ref.Idx, fmtRes(evalAll(ref)), w.creatorResidue(ic, ref))
			return nil, false
		}
		// ... and no commit that changed the table has been published and notified since: otherwise
		// the consumer would wait on a channel that nothing will close.
		for j := ic.refIdx + 1; j < len(tc.M.Chain); j++ {
			if tc.M.Chain[j].Returned && tc.M.Chain[j].Rev != ref.Rev {
				w.violate("C07", "open-channel-stale", "I%d Next(%s) returned an open watch channel from table version %d (revision %d) although the commit producing version %d (revision %d) has already returned",
					ic.id, what, ref.Idx, ref.Rev, j, tc.M.Chain[j].Rev)
				return nil, false
			}
		}
		matched := ic.refIdx
		w.probe("iterator-caught-up")
		// the channel must close at the next commit that changes the table
		w.addWatch(&Watch{ch: watch, ti: ic.ti, kind: "iter", stIdx: matched, snapRev: tc.M.Chain[matched].Rev, q: Query{Q: QAll}})
		return watch, true
	}
	ic.caughtUp = false
	if full {
		// (b) convergence
		if !w.viewEquals(ic, X) {
			w.violate("C07", "convergence", "I%d after fully consuming Next(%s): replay of delivered changes is %s, the snapshot (table version %d) has %s%s",
				ic.id, what, fmtView(ic.view), X.Idx, fmtRes(evalAll(X)), w.creatorResidue(ic, X))
			return nil, false
		}
		// (c) every deletion committed after creation has been delivered
		for id, d := range X.Dead {
			if d.Lo < ic.createRev {
				continue
			}
			got := false
			for _, r := range ic.delSeen[id] {
				if d.Lo < r && r <= d.Hi {
					got = true
					break
				}
			}
			if !got {
				w.violate("C08", "deletion-lost", "I%d (created at revision %d) fully consumed Next(%s) up to table version %d but was never handed the deletion of %q at revision (%d,%d]",
					ic.id, ic.createRev, what, X.Idx, id, d.Lo, d.Hi)
				return nil, false
			}
		}
		w.probe("iterator-full-consume")
	} else {
		w.probe("iterator-partial-consume")
	}
	return nil, true
}

func evalAll(st *TableState) []MObj {
	r, _ := st.eval(Query{Q: QAll})
	return r
}

func fmtView(v map[string]MObj) string {
	st := &TableState{Objs: v}
	return fmtRes(evalAll(st))
}

func (w *World) viewEquals(ic *IterCtx, st *TableState) bool {
	if len(ic.view) != len(st.Objs) {
		return false
	}
	for id, mo := range st.Objs {
		v, ok := ic.view[id]
		if !ok || v.Rev != mo.Rev {
			return false
		}
	}
	return true
}

// closeIterator closes the iterator (an internal write transaction on the table).
func (w *World) closeIterator(t *simcore.Task, ic *IterCtx) bool {
	ic.closing = true
	if ic.live {
		w.tables[ic.ti].M.liveIters--
	}
	t.Op = "IterClose"
	if tx := tctx(t); tx != nil {
		tx.holding = []int{ic.ti}
		defer func() { tx.holding = nil }()
	}
	// a panic here is attributed to the property under check when it is one whose statement covers
	// creating and closing iterators (after aborts: C02; delivery: C07/C08; never blocking: C10)
	prop := "C10"
	switch w.prop {
	case "C02", "C07", "C08":
		prop = w.prop
	}
	ok := w.guard(prop, "ChangeIterator.Close", func() { ic.it.Close() })
	t.Op = ""
	ic.closed = true
	ic.live = false
	w.S.Logf("I%d closed", ic.id)
	w.probe("iterator-closed")
	return ok
}

// consumerTask drives change iterators with arbitrary monotone snapshots.
func (w *World) consumerTask(t *simcore.Task) {
	c := w.C
	p := w.P
	rounds := c.Range(p.NextsMin, p.NextsMax)
	var ic *IterCtx
	var open *WTxn
	var lastSnap *Snap
	defer func() {
		if open != nil && !open.finished && open.txn != nil {
			func() {
				defer func() { recover() }()
				open.txn.Abort()
			}()
		}
	}()
	for r := 0; r < rounds; r++ {
		t.Step("consume")
		if w.S.Failed() {
			return
		}
		if ic == nil || ic.closed {
			ic = nil
			lastSnap = nil
			for _, x := range w.iters {
				if x.live && !x.owned && !x.closed {
					ic = x
					x.owned = true
					break
				}
			}
			if ic == nil {
				// create one ourselves
				if len(w.tables) == 0 {
					return
				}
				ti := c.Choose(len(w.tables))
				wt := w.beginWrite(t, []int{ti})
				open = wt
				if wt == nil || w.S.Failed() {
					return
				}
				if c.Choose(3) == 0 {
					if !w.writeOpKind(t, wt, OpInsert) {
						return
					}
				}
				if wt.finished {
					continue
				}
				if !w.createIterator(t, wt, ti) {
					return
				}
				if w.faultsOn && c.Choose(6) == 0 {
					w.abort(t, wt)
					w.probe("iterator-creation-aborted")
				} else {
					w.commit(t, wt)
				}
				if w.S.Failed() {
					return
				}
				continue
			}
		}
		tc := w.tables[ic.ti]
		limit := 0
		if c.Choose(3) == 0 {
			limit = 1 + c.Choose(3)
		}
		var openCh <-chan struct{}
		var ok bool
		switch kind := c.Weighted([]int{5, 2, 2, 1, 2}); kind {
		case 4: // a retained snapshot: the one passed last time, although the table may have moved on since
			if lastSnap == nil || ic.ti >= len(lastSnap.states) || lastSnap.states[ic.ti] == nil || lastSnap.states[ic.ti].Idx < ic.lastIdx {
				continue
			}
			if lastSnap.states[ic.ti] != tc.M.last() {
				w.probe("next-with-retained-older-snapshot")
			}
			openCh, ok = w.nextOn(ic, lastSnap.txn, lastSnap.states[ic.ti], limit, "retained ReadTxn")
		case 0: // fresh read transaction
			rtxn := w.db.ReadTxn()
			sn := w.bind(rtxn, "consumer snapshot", nil)
			if sn == nil {
				return
			}
			if ic.ti >= len(sn.states) || sn.states[ic.ti] == nil {
				continue
			}
			lastSnap = sn
			openCh, ok = w.nextOn(ic, rtxn, sn.states[ic.ti], limit, "ReadTxn")
		case 1: // write transaction holding the observed table, with uncommitted writes
			wt := w.beginWrite(t, []int{ic.ti})
			open = wt
			if wt == nil || w.S.Failed() {
				return
			}
			nOps := c.Choose(3)
			for j := 0; j < nOps; j++ {
				k := []int{OpInsert, OpDelete, OpModify}[c.Choose(3)]
				if !w.writeOpKind(t, wt, k) {
					return
				}
			}
			if wt.finished {
				continue
			}
			w.probe("next-with-writetxn-on-table")
			openCh, ok = w.nextOn(ic, wt.txn, wt.base[ic.ti], limit, fmt.Sprintf("WriteTxn T%d on the table", wt.id))
			if !ok {
				return
			}
			t.Step("next-in-wtxn")
			if c.Choose(2) == 0 {
				w.abort(t, wt)
			} else {
				w.commit(t, wt)
			}
			if w.S.Failed() {
				return
			}
		case 2: // write transaction on another table
			other := -1
			for i := range w.tables {
				if i != ic.ti {
					other = i
					break
				}
			}
			if other < 0 {
				continue
			}
			wt := w.beginWrite(t, []int{other})
			open = wt
			if wt == nil || w.S.Failed() {
				return
			}
			X := wt.stateFor(ic.ti)
			if X != nil {
				w.probe("next-with-writetxn-other-table")
				openCh, ok = w.nextOn(ic, wt.txn, X, limit, fmt.Sprintf("WriteTxn T%d on another table", wt.id))
				if !ok {
					return
				}
			}
			if c.Choose(2) == 0 {
				// as a derived table does: observe another table's changes, write the own table, commit
				w.probe("next-with-writetxn-other-table-then-commit")
				if !w.writeOpKind(t, wt, OpInsert) {
					return
				}
				if !wt.finished {
					w.commit(t, wt)
				}
			} else {
				w.abort(t, wt)
			}
			if w.S.Failed() {
				return
			}
			ok = true
		case 3: // the snapshot returned by Commit
			wt := w.beginWrite(t, []int{ic.ti})
			open = wt
			if wt == nil || w.S.Failed() {
				return
			}
			if !w.writeOpKind(t, wt, []int{OpInsert, OpDelete}[c.Choose(2)]) {
				return
			}
			if wt.finished {
				continue
			}
			rtxn, sn := w.commitRet(t, wt)
			if w.S.Failed() || sn == nil {
				return
			}
			w.probe("next-with-commit-result")
			openCh, ok = w.nextOn(ic, rtxn, sn.states[ic.ti], limit, "Commit result")
		}
		if !ok || w.S.Failed() {
			return
		}
		if openCh != nil && c.Choose(2) == 0 {
			ch := openCh
			t.WaitUntil("await-changes", time.Duration(1+c.Choose(3000))*time.Millisecond, func() bool { return isClosed(ch) })
			if w.S.Failed() {
				return
			}
		}
		if w.faultsOn && c.Choose(12) == 0 {
			if !w.closeIterator(t, ic) {
				return
			}
			ic = nil
		}
		_ = tc
	}
	if ic != nil && !ic.closed {
		ic.owned = false
	}
}

// checkGraveyardBound: deletions that some open iterator created before them has not been handed must still be retained (C08).
func (w *World) checkGraveyardBound(prop string, rtxn statedb.ReadTxn, ti int, st *TableState) bool {
	tc := w.tables[ti]
	need := 0
	var example string
	for id, d := range st.Dead {
		for _, ic := range w.iters {
			if ic.ti != ti || !ic.live || ic.closing || ic.closed || ic.consuming || ic.createIdx > d.Commit || d.Lo < ic.createRev {
				continue
			}
			handed := false
			for _, r := range ic.delSeen[id] {
				if d.Lo < r && r <= d.Hi {
					handed = true
				}
			}
			if !handed {
				need++
				example = fmt.Sprintf("%q deleted at (%d,%d], iterator I%d", id, d.Lo, d.Hi, ic.id)
				break
			}
		}
	}
	var got int
	if !w.guard(prop, "graveyard length", func() { got = statedb.VerifGraveyardLen(rtxn, tc.T) }) {
		return false
	}
	// only deleted objects are retained: never more than there are deleted keys
	if got > len(st.Dead) {
		w.violate("C08", "graveyard-too-large", "table %s version %d retains %d deleted objects although only %d keys are currently deleted: an object that is live again is still retained",
			tc.M.Name, st.Idx, got, len(st.Dead))
		return false
	}
	if got < need {
		w.violate("C08", "graveyard-too-small", "table %s version %d retains %d deleted objects but %d deletions have not yet been handed to an open iterator created before them (e.g. %s)",
			tc.M.Name, st.Idx, got, need, example)
		return false
	}
	if need > 0 {
		w.probe("graveyard-bound-checked")
	}
	return true
}

// trackersAsModel: with no transaction or iterator close in flight on the table, the number of
// delete trackers equals the number of open committed iterators, and without any tracker nothing
// new is retained (C02: an aborted Changes() leaves no tracker behind).
func (w *World) trackersAsModel(rtxn statedb.ReadTxn, ti int, what string) bool {
	tc := w.tables[ti]
	for _, mc := range w.inflight {
		if _, ok := mc.Entries[ti]; ok {
			return true
		}
	}
	want := 0
	for _, ic := range w.allIters {
		if ic.ti != ti {
			continue
		}
		if ic.closing && !ic.closed {
			return true // a Close is in flight
		}
		if ic.live && !ic.closed {
			want++
		}
	}
	if tc.M.Writers != 0 {
		return true // another writer holds the table; its uncommitted Changes() is not visible anyway, but be conservative
	}
	var got int
	if !w.guard("C02", "tracker count", func() { got = statedb.VerifDeleteTrackerCount(rtxn, tc.T) }) {
		return false
	}
	if got != want {
		w.violate("C02", "tracker-count", "%s: table %s has %d delete trackers, but %d change iterators are open (created in committed transactions and not closed)", what, tc.M.Name, got, want)
		return false
	}
	w.probe("tracker-count-checked")
	return true
}
