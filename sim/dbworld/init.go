package dbworld

import (
	"fmt"
	"sort"

	"github.com/cilium/statedb"

	"verif/sim/simcore"
)

// initReg is a registered table initializer.
type initReg struct {
	ti        int
	name      string
	doneFn    func(statedb.WriteTxn)
	dead      bool // registered in an aborted transaction
	committed bool
	done      bool // marked done in a committed transaction
	burnt     bool // the done function was called (in any transaction): it works only once
	regTxn    int
}

func contains(l []string, s string) bool {
	for _, x := range l {
		if x == s {
			return true
		}
	}
	return false
}

func sameSet(a, b []string) bool {
	x := append([]string(nil), a...)
	y := append([]string(nil), b...)
	sort.Strings(x)
	sort.Strings(y)
	if len(x) != len(y) {
		return false
	}
	for i := range x {
		if x[i] != y[i] {
			return false
		}
	}
	return true
}

// checkInit compares Initialized/PendingInitializers through txn with the model version.
func (w *World) checkInit(txn statedb.ReadTxn, ti int, st *TableState, what string) bool {
	tc := w.tables[ti]
	var ok bool
	var pend []string
	if !w.guard("C19", "Initialized", func() {
		ok, _ = tc.T.Initialized(txn)
		pend = tc.T.PendingInitializers(txn)
	}) {
		return false
	}
	if !sameSet(pend, st.Pending) {
		w.violate("C19", "pending-mismatch", "%s table %s: PendingInitializers=%q, want %q", what, tc.M.Name, pend, st.Pending)
		return false
	}
	if ok != (len(st.Pending) == 0) {
		w.violate("C19", "initialized-mismatch", "%s table %s: Initialized=%v with pending initializers %q", what, tc.M.Name, ok, st.Pending)
		return false
	}
	return true
}

func (w *World) registerInit(t *simcore.Task, wt *WTxn, ti int) bool {
	tc := w.tables[ti]
	st := wt.staged[ti]
	if len(w.inits) >= 8 {
		return true
	}
	r := &initReg{ti: ti, name: fmt.Sprintf("init%d", len(w.inits)), regTxn: wt.id}
	// a name whose earlier registration is done may be registered again: a new initializer with an old name
	var reuse []string
	for _, o := range w.inits {
		if o.ti == ti && o.done && !contains(st.Pending, o.name) && !contains(reuse, o.name) {
			reuse = append(reuse, o.name)
		}
	}
	if len(reuse) > 0 && w.C.Choose(2) == 0 {
		r.name = reuse[w.C.Choose(len(reuse))]
		w.probe("initializer-name-registered-again")
	}
	w.inits = append(w.inits, r)
	if !w.guard("C19", "RegisterInitializer", func() { r.doneFn = tc.T.RegisterInitializer(wt.txn, r.name) }) {
		return false
	}
	st.Pending = append(st.Pending, r.name)
	wt.undone = append(wt.undone, r)
	w.S.Logf("T%d RegisterInitializer(%s,%s)", wt.id, tc.M.Name, r.name)
	w.probe("initializer-registered")
	w.progress++
	return w.checkInit(wt.txn, ti, st, fmt.Sprintf("T%d after RegisterInitializer", wt.id))
}

func (w *World) doneInit(t *simcore.Task, wt *WTxn, ti int) bool {
	tc := w.tables[ti]
	st := wt.staged[ti]
	var cand []*initReg
	for _, r := range w.inits {
		if r.ti != ti || r.dead || r.done || r.burnt {
			continue
		}
		if r.committed || r.regTxn == wt.id {
			cand = append(cand, r)
		}
	}
	// the done function of an initializer whose mark is committed, called once more: it has nothing left to
	// mark, also when its name has since been registered again
	var spent []*initReg
	for _, r := range w.inits {
		if r.ti == ti && r.done {
			spent = append(spent, r)
		}
	}
	if len(spent) > 0 && w.C.Choose(3) == 0 {
		r := spent[w.C.Choose(len(spent))]
		if !w.guard("C19", "initializer done again", func() { r.doneFn(wt.txn) }) {
			return false
		}
		w.S.Logf("T%d done function of the completed initializer %s of %s called again", wt.id, r.name, tc.M.Name)
		w.probe("spent-done-function-called-again")
		return w.checkInit(wt.txn, ti, st, fmt.Sprintf("T%d after calling the done function of the completed initializer %s again", wt.id, r.name))
	}
	if len(cand) == 0 {
		return true
	}
	r := cand[w.C.Choose(len(cand))]
	r.burnt = true
	if !w.guard("C19", "initializer done", func() { r.doneFn(wt.txn) }) {
		return false
	}
	var np []string
	for _, n := range st.Pending {
		if n != r.name {
			np = append(np, n)
		}
	}
	st.Pending = np
	wt.doneMarks = append(wt.doneMarks, r)
	w.S.Logf("T%d initializer %s of %s marked done", wt.id, r.name, tc.M.Name)
	w.probe("initializer-done")
	w.progress++
	return w.checkInit(wt.txn, ti, st, fmt.Sprintf("T%d after marking %s done", wt.id, r.name))
}
