package dbworld

import (
	"fmt"
	"time"

	"github.com/cilium/statedb"

	"verif/sim/simcore"
)

// Watch is a registered watch channel with what the oracle needs to know about its origin.
type Watch struct {
	id      int
	ch      <-chan struct{}
	ti      int
	q       Query
	kind    string // "query", "insert", "iter", "init"
	stIdx   int    // chain index of the table version the channel was obtained from
	snapRev uint64 // table revision of that version
	closed  bool
	dropped bool
	objID   string
}

func isClosed(ch <-chan struct{}) bool {
	select {
	case <-ch:
		return true
	default:
		return false
	}
}

func (w *World) addWatch(wa *Watch) *Watch {
	wa.id = len(w.watches)
	w.watches = append(w.watches, wa)
	return wa
}

// pollWatches runs after every scheduler step: a registered channel may go
// from open to closed only in a step of a task that is inside Commit of a
// transaction that changed the table, and only once the change is visible.
func (w *World) pollWatches(ran *simcore.Task) {
	for _, wa := range w.watches {
		if wa.closed || wa.dropped {
			continue
		}
		if !isClosed(wa.ch) {
			continue
		}
		wa.closed = true
		tc := w.tables[wa.ti]
		tx := tctx(ran)
		who := "nobody"
		if ran != nil {
			who = fmt.Sprintf("%s (in %s)", ran.Name, ran.Op)
		}
		prop := "C06"
		if wa.kind == "init" {
			prop = "C19"
		}
		if wa.kind == "iter" {
			prop = "C07"
		}
		if tx == nil || tx.commit == nil {
			oracle := "spurious-close"
			if tx != nil && tx.abort != nil {
				oracle = "closed-by-abort"
			}
			w.violate(prop, oracle, "watch #%d (%s %v on %s from revision %d) was closed during a step of %s, not inside the Commit of a transaction on that table",
				wa.id, wa.kind, wa.q, tc.M.Name, wa.snapRev, who)
			return
		}
		wt := tx.commit
		if !wt.locked(wa.ti) {
			w.violate(prop, "spurious-close", "watch #%d (%s %v on %s) was closed during Commit of T%d which does not hold that table", wa.id, wa.kind, wa.q, tc.M.Name, wt.id)
			return
		}
		post := wt.staged[wa.ti]
		rtxn := w.db.ReadTxn()
		if wa.kind == "init" {
			if len(post.Pending) != 0 {
				w.violate("C19", "init-closed-early", "the Initialized channel of %s was closed during Commit of T%d although initializers %q are still pending", tc.M.Name, wt.id, post.Pending)
				return
			}
			// the commit that made the table initialized must be visible by now (a later
			// transaction may already have registered a new initializer)
			sn := w.bind(rtxn, "snapshot at Initialized channel close", nil)
			if sn == nil {
				return
			}
			if wa.ti >= len(sn.states) || sn.states[wa.ti] == nil || sn.states[wa.ti].Idx < post.Idx {
				w.violate("C19", "init-close-before-visible", "the Initialized channel of %s is closed at %s of T%d's Commit, but a snapshot taken now does not yet contain that commit (still uninitialized)", tc.M.Name, ran.Point(), wt.id)
				return
			}
			w.probe("init-channel-closed-in-commit")
			continue
		}
		if post.Rev == wt.base[wa.ti].Rev {
			w.violate(prop, "spurious-close", "watch #%d (%s %v on %s) was closed during Commit of T%d which did not change the table", wa.id, wa.kind, wa.q, tc.M.Name, wt.id)
			return
		}
		rev := tc.T.Revision(rtxn)
		if rev <= wa.snapRev || rev < post.Rev {
			w.violate(prop, "close-before-visible", "watch #%d (%s %v on %s from revision %d) is closed at %s of T%d's Commit, but a snapshot taken now shows revision %d (the commit publishes %d)",
				wa.id, wa.kind, wa.q, tc.M.Name, wa.snapRev, ran.Point(), wt.id, rev, post.Rev)
			return
		}
		w.probe("watch-closed-in-commit")
	}
}

// indexWide evaluates the whole index: LowerBound watches are index-wide.
func indexWide(st *TableState, q Query) []MObj {
	if q.Kind.isLPM() {
		_, per := st.eval(Query{Q: QPrefix, Kind: q.Kind, Pfx: Pfx{0, 0}})
		return per
	}
	var out []MObj
	for _, e := range partEntries(q.Kind, st) {
		out = append(out, e.obj)
	}
	return out
}

// mustCloseAtCommit checks, at the return of a Commit, that every open
// channel whose query result the commit changed is closed (no missed change).
func (w *World) mustCloseAtCommit(wt *WTxn) bool {
	for _, wa := range w.watches {
		if wa.closed || wa.dropped || !wt.locked(wa.ti) {
			continue
		}
		pre, post := wt.base[wa.ti], wt.staged[wa.ti]
		if wa.stIdx > pre.Idx {
			continue // obtained from a version that already contains this commit
		}
		tc := w.tables[wa.ti]
		must := false
		why := ""
		switch {
		case wa.kind == "init":
			// the channel belongs to the initialization round that was open at wa.stIdx: it must be
			// closed by the first commit after that which leaves no initializer pending
			first := len(pre.Pending) > 0 && len(post.Pending) == 0
			for j := wa.stIdx; j <= pre.Idx && first; j++ {
				if len(tc.M.Chain[j].Pending) == 0 {
					first = false
				}
			}
			if first {
				must, why = true, "the table became initialized"
			}
		case wa.kind == "iter" || wa.q.Q == QAll || wa.q.Q == QByRevision:
			if post.Rev != pre.Rev {
				must, why = true, "the table changed"
			}
		case wa.q.Q == QLowerBound:
			if !sameResIDs(indexWide(pre, wa.q), indexWide(post, wa.q)) {
				must, why = true, "an object indexed by that index changed"
			}
		default:
			a, _ := pre.eval(wa.q)
			b, _ := post.eval(wa.q)
			if !sameResIDs(a, b) {
				must, why = true, fmt.Sprintf("the result changed from %s to %s", fmtRes(a), fmtRes(b))
			}
		}
		if !must {
			continue
		}
		if isClosed(wa.ch) {
			wa.closed = true
			continue
		}
		prop := "C06"
		if wa.kind == "init" {
			prop = "C19"
		}
		if wa.kind == "iter" {
			prop = "C07"
		}
		w.violate(prop, "missed-change", "watch #%d (%s %v on %s from revision %d) is still open at the return of T%d's Commit although %s",
			wa.id, wa.kind, wa.q, tc.M.Name, wa.snapRev, wt.id, why)
		return false
	}
	return true
}

// registerInsertWatch remembers a channel returned by InsertWatch; it becomes live when the transaction commits.
func (w *World) registerInsertWatch(wt *WTxn, ti int, id string, ch <-chan struct{}, rev uint64) {
	if ch == nil {
		w.violate("C06", "nil-watch", "InsertWatch returned a nil channel")
		return
	}
	wt.iwatches = append(wt.iwatches, &Watch{ch: ch, ti: ti, kind: "insert", objID: id, snapRev: rev, q: Query{Q: QGet, Kind: IdxPrimary, Key: []byte(id)}})
}

// afterCommit runs the commit-return oracles.
func (w *World) afterCommit(t *simcore.Task, wt *WTxn, sn *Snap) {
	if !w.mustCloseAtCommit(wt) {
		return
	}
	for _, wa := range wt.iwatches {
		post := wt.staged[wa.ti]
		mo, ok := post.Objs[wa.objID]
		if !ok || mo.Rev == 0 {
			continue
		}
		// only if this InsertWatch was the last write to the object in the transaction
		if wa.snapRev != mo.Rev {
			continue
		}
		wa.stIdx = post.Idx
		// a later transaction may already have changed the object while this Commit was returning
		changedLater := false
		chain := w.tables[wa.ti].M.Chain
		for j := post.Idx + 1; j < len(chain); j++ {
			if x, ok := chain[j].Objs[wa.objID]; !ok || x.Rev != mo.Rev {
				changedLater = true
			}
		}
		if changedLater {
			continue
		}
		if isClosed(wa.ch) {
			w.violate("C06", "insertwatch-closed-early", "the channel returned by InsertWatch(%q) in T%d is closed at the return of Commit although the object was not modified again", wa.objID, wt.id)
			return
		}
		w.addWatch(wa)
		w.probe("insertwatch-registered")
	}
	for _, it := range wt.newIters {
		if !it.dead {
			it.live = true
			it.createIdx = wt.staged[it.ti].Idx
			w.iters = append(w.iters, it)
			w.tables[it.ti].M.liveIters++
		}
	}
	for _, r := range wt.undone {
		r.committed = true
	}
	for _, r := range wt.doneMarks {
		r.done = true
	}
	if w.P.CommitCheck && sn != nil {
		for _, ti := range wt.tables {
			if ti < len(sn.states) && sn.states[ti] != nil {
				if !w.checkTable(w.P.ReadProp, sn.txn, w.tables[ti], sn.states[ti], w.P.BatteryQueries, fmt.Sprintf("snapshot returned by Commit of T%d", wt.id)) {
					return
				}
			}
		}
	}
}

// watcherTask obtains watch channels from fresh snapshots, registers them and waits on some of them.
func (w *World) watcherTask(t *simcore.Task) {
	c := w.C
	n := c.Range(w.P.WatchesMin, w.P.WatchesMax)
	for i := 0; i < n; i++ {
		t.Step("watch")
		if w.S.Failed() {
			return
		}
		rtxn := w.db.ReadTxn()
		sn := w.bind(rtxn, "watcher snapshot", nil)
		if sn == nil {
			return
		}
		ti := c.Choose(len(sn.states))
		st := sn.states[ti]
		if st == nil {
			continue
		}
		tc := w.tables[ti]
		var wa *Watch
		if w.P.InitWatch && len(st.Pending) > 0 && c.Choose(2) == 0 {
			var ok bool
			var ch <-chan struct{}
			if !w.guard("C19", "Initialized", func() { ok, ch = tc.T.Initialized(rtxn) }) {
				return
			}
			if ok {
				continue
			}
			if isClosed(ch) {
				w.violate("C19", "init-channel-closed", "Initialized(%s) on a fresh snapshot reports uninitialized but returns a closed channel", tc.M.Name)
				return
			}
			wa = w.addWatch(&Watch{ch: ch, ti: ti, kind: "init", stIdx: st.Idx, snapRev: st.Rev})
		} else {
			qs := w.candidateQueries(tc, st)
			q := qs[c.Choose(len(qs))]
			if c.Choose(2) == 0 {
				// prefer watches on inner nodes: prefix and list queries with several results
				var big []Query
				for _, x := range qs {
					if x.Q == QPrefix || x.Q == QList {
						if r, _ := st.eval(x); len(r) >= 2 && len(r) < len(st.Objs) {
							big = append(big, x)
						}
					}
				}
				if len(big) > 0 {
					q = big[c.Choose(len(big))]
					w.probe("watch-on-inner-node")
				}
			}
			var got []MObj
			var ch <-chan struct{}
			if !w.guard("C06", q.String(), func() { got, ch = realQuery(tc, rtxn, q, 0) }) {
				return
			}
			want, per := st.eval(q)
			if !sameRes(got, want) && !(per != nil && sameRes(got, per)) {
				w.violate("C04", "query-mismatch", "watcher: table %s (revision %d) %v: got %s want %s", tc.M.Name, st.Rev, q, fmtRes(got), fmtRes(want))
				return
			}
			if ch == nil {
				w.violate("C06", "nil-watch", "%v on %s returned a nil watch channel", q, tc.M.Name)
				return
			}
			if isClosed(ch) {
				w.violate("C06", "closed-when-handed-out", "%v on a fresh snapshot of %s (revision %d) returned an already closed watch channel", q, tc.M.Name, st.Rev)
				return
			}
			wa = w.addWatch(&Watch{ch: ch, ti: ti, q: q, kind: "query", stIdx: st.Idx, snapRev: st.Rev})
			w.S.Logf("watch #%d %v on %s@%d", wa.id, q, tc.M.Name, st.Rev)
		}
		if c.Choose(2) == 0 {
			// wait for it (bounded), then look at the database
			closed := t.WaitUntil("await-watch", time.Duration(1+c.Choose(5000))*time.Millisecond, func() bool { return isClosed(wa.ch) })
			if w.S.Failed() {
				return
			}
			if closed {
				w.probe("waiter-woken")
				now := w.db.ReadTxn()
				if wa.kind == "init" {
					// the table may have been given a new initializer since; the snapshot must agree with the model
					// (visibility at the instant of the close is checked by pollWatches)
					sn2 := w.bind(now, "waiter snapshot", nil)
					if sn2 == nil {
						return
					}
					if wa.ti < len(sn2.states) && sn2.states[wa.ti] != nil && !w.checkInit(now, wa.ti, sn2.states[wa.ti], "waiter woken by the Initialized channel") {
						return
					}
				} else if rev := tc.T.Revision(now); rev <= wa.snapRev {
					w.violate("C06", "close-before-visible", "a waiter woken by watch #%d (%v on %s from revision %d) reads revision %d", wa.id, wa.q, tc.M.Name, wa.snapRev, rev)
					return
				}
			}
		}
		// keep the number of polled channels bounded
		if len(w.watches) > 60 {
			for _, old := range w.watches[:len(w.watches)-60] {
				old.dropped = true
			}
		}
	}
}

var _ = statedb.RevisionIndex
