package dbworld

import (
	"fmt"
	"os"
	"regexp"
	"runtime"
	"sort"
	"strings"
	"testing"
	"time"

	"github.com/cilium/statedb"

	"verif/sim/simcore"
)

// TableCtx couples a real table with its model.
type TableCtx struct {
	M      *MTable
	T      statedb.RWTable[*Obj]
	IDs    []string // primary key universe
	Sec    []string // secondary key alphabet
	Tag    []string // tag alphabet
	Pfx    []Pfx    // prefix universe
	HotPfx int      // index of a prefix shared by many objects
	NetIP  bool     // the "ln" index is a NetIPPrefixIndex (IPv4 netip.Prefix) instead of an LPMIndex
}

// taskCtx is the harness' per-task state, used for attribution by the oracles.
type taskCtx struct {
	commit  *WTxn // transaction whose Commit the task is executing
	abort   *WTxn // transaction whose Abort the task is executing
	holding []int // tables of the task's write transaction, from WriteTxn invoke to Commit/Abort return
	role    string
}

// MCommit is a commit that has been invoked and not yet returned.
type MCommit struct {
	ID      int
	Entries map[int]int // table index -> chain index of the version it produced
	RevChg  map[int]bool
}

// World is one simulated run of a statedb.DB with its model and oracles.
type World struct {
	t    *testing.T
	prop string
	tier string
	C    *simcore.Choices
	S    *simcore.Sim
	P    *Profile

	db         *statedb.DB
	ghost      statedb.RWTable[*Obj] // a table object that is not registered with db
	bulk       bool                  // this run builds a backlog of thousands of deleted objects
	bulkOps    int
	abortedTxn map[int]bool // ids of write transactions that were aborted (objects carry their writer's id)
	metrics    *simMetrics
	tables     []*TableCtx
	nReg       int // tables whose registration has returned

	inflight map[int]*MCommit
	nextTxn  int

	snaps     []*Snap
	watches   []*Watch
	iters     []*IterCtx
	inits     []*initReg
	lockTable map[*simcore.SimLock]int // simulated table lock -> table index, learnt from harness transactions
	everDead  map[int]bool             // tables that have ever retained a deleted object
	allTxns   []*WTxn
	allIters  []*IterCtx
	curFloor  *floor

	gcInterval time.Duration

	probes   map[string]int
	faults   map[string]int
	progress int
	states   map[uint64]struct{}
	desc     string
	faultsOn bool
}

func (w *World) probe(name string) { w.probes[name]++ }
func (w *World) fault(name string) { w.faults[name]++ }

// violate records an oracle failure for the given property.
func (w *World) violate(prop, oracle, format string, args ...any) {
	w.S.Violate(prop, oracle, format, args...)
}

// guard runs fn, converting a panic of the code under test into a violation of prop.
func (w *World) guard(prop, what string, fn func()) (ok bool) {
	defer func() {
		if r := recover(); r != nil {
			if isAbort(r) {
				panic(r)
			}
			buf := make([]byte, 2048)
			n := runtime.Stack(buf, false)
			w.violate(prop, "panic", "%s panicked: %v\n%s", what, r, trimStack(string(buf[:n])))
			ok = false
		}
	}()
	fn()
	return true
}

func isAbort(r any) bool { return simcore.IsAbort(r) }

// attr attributes an oracle failure that contradicts several property statements at once to the
// property under check when it is one of them, otherwise to the primary one.
func (w *World) attr(primary string, also ...string) string {
	for _, p := range also {
		if p == w.prop {
			return p
		}
	}
	return primary
}

func trimStack(s string) string {
	lines := strings.Split(s, "\n")
	var keep []string
	for _, l := range lines {
		if strings.Contains(l, "statedb") || strings.Contains(l, "panic") {
			keep = append(keep, strings.TrimSpace(l))
		}
		if len(keep) > 12 {
			break
		}
	}
	return hexRe.ReplaceAllString(strings.Join(keep, " | "), "0x?")
}

var hexRe = regexp.MustCompile(`0x[0-9a-f]+\??|\+0x[0-9a-f]+`)

var leakedTxns []statedb.WriteTxn
var leakedIters []statedb.ChangeIterator[*Obj]

// Run executes one run of dbworld for the given property.
func Run(t *testing.T, prop, tier string, c *simcore.Choices, full bool) *simcore.RunResult {
	res := &simcore.RunResult{}
	w := &World{t: t, prop: prop, tier: tier, C: c,
		inflight: map[int]*MCommit{}, lockTable: map[*simcore.SimLock]int{}, everDead: map[int]bool{}, probes: map[string]int{}, faults: map[string]int{}, states: map[uint64]struct{}{}, abortedTxn: map[int]bool{}}
	w.P = profileFor(prop, tier)
	leaked, perr := simcore.InBubble(t, func() {
		w.run(full)
	})
	if perr != nil {
		res.Harness = fmt.Sprint(perr)
	}
	_ = leaked
	if w.S != nil {
		res.Stats = w.S.Stats
		res.Log = w.S.Log
		res.LogHash = fmt.Sprintf("%016x", w.S.LogHash())
		if v := w.S.Violation(); v != nil {
			switch {
			case v.Property == "HARNESS":
				res.Harness = v.Oracle + ": " + v.Detail
			case v.Property != prop:
				res.Foreign = append(res.Foreign, *v)
			default:
				res.Violation = v
			}
		}
	}
	// A write transaction left open by a run that ended in a violation must
	// stay reachable: statedb's finalizer panics on unfinished transactions.
	for _, wt := range w.allTxns {
		if !wt.done && wt.txn != nil {
			leakedTxns = append(leakedTxns, wt.txn)
		}
	}
	// Likewise an unclosed change iterator must stay reachable: its cleanup
	// would run a write transaction from the runtime's cleanup goroutine.
	for _, ic := range w.allIters {
		if !ic.closed {
			leakedIters = append(leakedIters, ic.it)
		}
	}
	res.Choices = c.Trace
	res.Probes = w.probes
	res.Faults = w.faults
	res.Progress = w.progress
	res.Desc = w.desc
	for h := range w.states {
		res.StateHash = append(res.StateHash, h)
	}
	sort.Slice(res.StateHash, func(i, j int) bool { return res.StateHash[i] < res.StateHash[j] })
	return res
}

func (w *World) run(full bool) {
	p := w.P
	c := w.C
	cfg := simcore.Config{KeepFullLog: full, InBubble: true}
	w.faultsOn = c.Choose(5) != 0 // one run in five is fault free
	cfg.StepLimit = p.StepLimit
	if p.BulkOneIn > 0 && c.Choose(p.BulkOneIn) == 0 {
		// a run with a backlog: thousands of objects inserted and deleted under lagging change iterators
		w.bulk = true
		cfg.StepLimit = 40000
	}
	cfg.Strategy = c.Weighted([]int{5, 3, 2})
	cfg.StickNum = 1 + c.Choose(8)
	cfg.StickDen = 10
	cfg.PCTDepth = 1 + c.Choose(3)
	cfg.PausePoints = map[string]bool{}
	if len(p.PausePoints) > 0 && c.Choose(3) != 0 {
		// target one or two pause points per run
		n := 1 + c.Choose(2)
		for i := 0; i < n; i++ {
			cfg.PausePoints[p.PausePoints[c.Choose(len(p.PausePoints))]] = true
		}
		cfg.PauseNum, cfg.PauseDen = 1+c.Choose(3), 4
		cfg.PauseMax = 4 + c.Choose(40)
		cfg.PauseBudget = 1 + c.Choose(4)
	}
	if w.faultsOn && c.Choose(3) == 0 {
		cfg.StallNum, cfg.StallDen = 1, 20+c.Choose(60)
		cfg.StallMax = time.Duration(1+c.Choose(3000)) * time.Millisecond
	}
	if c.Choose(3) == 0 {
		cfg.IdleNum, cfg.IdleDen = 1, 10+c.Choose(50)
		cfg.IdleMax = time.Duration(1+c.Choose(2000)) * time.Millisecond
	}
	w.gcInterval = []time.Duration{time.Millisecond, 10 * time.Millisecond, 100 * time.Millisecond, time.Second, 10 * time.Second}[c.Choose(5)]

	s := simcore.NewSim(c, cfg)
	w.S = s
	s.OnStep = w.onStep
	statedb.VerifInstallHooks(s.HookYield, s.HookAcquire, s.HookRelease)
	defer statedb.VerifInstallHooks(nil, nil, nil)

	w.metrics = newSimMetrics()
	if os.Getenv("VERIF_TRACE_METRICS") != "" {
		w.metrics.trace = func(name string, n int) {
			cur := "?"
			if t := w.S.Cur(); t != nil {
				cur = t.Name + "@" + t.Point()
			}
			fmt.Printf("METRIC graveyard[%s]=%d at step %d by %s\n", name, n, w.S.Steps(), cur)
		}
	}
	w.db = statedb.New(statedb.WithMetrics(w.metrics))
	w.db.VerifSetGCRateLimitInterval(w.gcInterval)

	var pauseList []string
	for k := range cfg.PausePoints {
		pauseList = append(pauseList, k)
	}
	sort.Strings(pauseList)
	w.desc = fmt.Sprintf("prop=%s strategy=%d stick=%d/10 pct=%d pause=%v faults=%v gc=%v", w.prop, cfg.Strategy, cfg.StickNum, cfg.PCTDepth, pauseList, w.faultsOn, w.gcInterval)

	s.Spawn("setup", func(t *simcore.Task) {
		t.Data = &taskCtx{role: "setup"}
		w.setupTask(t)
	})
	s.Run()

	if v := s.Violation(); v == nil && !s.Stats.Truncated {
		// quiescent tail and end-of-run oracles run as a task so that hooks work
		w.finalChecks()
	}
	// stop the database while the drain loop keeps releasing tasks
	done := make(chan struct{})
	go func() {
		defer close(done)
		defer func() { recover() }()
		w.db.Stop()
	}()
	s.Drain(func() bool {
		select {
		case <-done:
			return true
		default:
			return false
		}
	})
}

// setupTask registers the tables, starts the database and spawns the role tasks.
func (w *World) setupTask(t *simcore.Task) {
	p := w.P
	c := w.C
	nTables := c.Range(p.TablesMin, p.TablesMax)
	for i := 0; i < nTables; i++ {
		if !w.newTable(t) {
			return
		}
	}
	if p.GhostTable && nTables > 0 && c.Choose(2) == 0 {
		// a table object that is not registered with the database: registration under a taken name fails
		func() {
			defer func() {
				if r := recover(); r != nil && simcore.IsAbort(r) {
					panic(r)
				}
			}()
			g, err := statedb.NewTable[*Obj](w.db, w.tables[0].M.Name, idIndex)
			if err != nil && g != nil {
				w.ghost = g
			}
		}()
	}
	if err := w.db.Start(); err != nil {
		w.violate("HARNESS", "start", "%v", err)
		return
	}
	w.desc += fmt.Sprintf(" tables=%d", nTables)
	for _, tc := range w.tables {
		w.desc += fmt.Sprintf(" %s%v", tc.M.Name, tc.M.Kinds)
	}
	spawn := func(role string, n int, fn func(t *simcore.Task)) {
		for i := 0; i < n; i++ {
			name := fmt.Sprintf("%s%d", role, i)
			w.S.Spawn(name, func(t *simcore.Task) {
				t.Data = &taskCtx{role: role}
				fn(t)
			})
		}
		if n > 0 {
			w.desc += fmt.Sprintf(" %s=%d", role, n)
		}
	}
	spawn("writer", c.Range(p.WritersMin, p.WritersMax), w.writerTask)
	spawn("reader", c.Range(p.ReadersMin, p.ReadersMax), w.readerTask)
	spawn("watcher", c.Range(p.WatchersMin, p.WatchersMax), w.watcherTask)
	spawn("consumer", c.Range(p.ConsumersMin, p.ConsumersMax), w.consumerTask)
	if p.Registrar && c.Choose(max(2, p.RegistrarOdds)) == 0 {
		spawn("registrar", 1, w.registrarTask)
	}
	if p.Prober {
		spawn("prober", 1, w.proberTask)
	}
}

// newTable registers a fresh table with a swarm-chosen schema.
func (w *World) newTable(t *simcore.Task) bool {
	c := w.C
	p := w.P
	idx := len(w.tables)
	name := fmt.Sprintf("t%d", idx)
	var kinds []IndexKind
	for _, k := range []IndexKind{IdxUnique, IdxNonUnique, IdxMulti, IdxLPMUnique, IdxLPMMulti} {
		if c.Bool(p.IndexPct, 100) {
			kinds = append(kinds, k)
		}
	}
	alpha := c.Choose(numAlpha)
	n := 6 + c.Choose(10)
	if alpha == AlphaFanout {
		n = 20 + c.Choose(50)
	}
	pick := func(m int) int { return c.Choose(m) }
	tc := &TableCtx{
		M:   &MTable{Name: name, Pos: idx, Kinds: kinds},
		IDs: universe(alpha, n, pick),
		Sec: universe([]int{AlphaTiny, AlphaEscape}[c.Choose(2)], 3+c.Choose(4), pick),
		Tag: universe([]int{AlphaTiny, AlphaEscape}[c.Choose(2)], 3+c.Choose(4), pick),
		Pfx: pfxUniverse(pick),
	}
	tc.HotPfx = c.Choose(len(tc.Pfx))
	// derived from a value already drawn, so that the choice stream of earlier versions stays aligned
	tc.NetIP = tc.HotPfx%2 == 1
	var secondary []statedb.Indexer[*Obj]
	for _, k := range kinds {
		secondary = append(secondary, indexerFor(k, tc.NetIP))
	}
	tc.M.Chain = []*TableState{{Objs: map[string]MObj{}, Dead: map[string]MDel{}, CommitID: -1}}
	var err error
	t.Op = "NewTable"
	ok := w.guard("C05", "NewTable", func() {
		tc.T, err = statedb.NewTable[*Obj](w.db, name, idIndex, secondary...)
	})
	t.Op = ""
	if !ok {
		return false
	}
	if err != nil {
		w.violate("HARNESS", "newtable", "%v", err)
		return false
	}
	tc.M.RegSeq = w.S.Seq()
	w.tables = append(w.tables, tc)
	w.nReg = len(w.tables)
	w.S.Logf("registered %s kinds=%v alpha=%d ids=%d", name, kinds, alpha, len(tc.IDs))
	return true
}

func tctx(t *simcore.Task) *taskCtx {
	if t == nil {
		return nil
	}
	if x, ok := t.Data.(*taskCtx); ok {
		return x
	}
	return nil
}

// recordState adds the current abstract state (model digest x task phases) to the visited set.
func (w *World) recordState() {
	h := uint64(1469598103934665603)
	for _, tc := range w.tables {
		h ^= tc.M.last().digest()
		h *= 1099511628211
	}
	for _, t := range w.S.Tasks() {
		for _, b := range []byte(t.Point()) {
			h ^= uint64(b)
			h *= 1099511628211
		}
		h ^= uint64(t.State()) + 0x9e
		h *= 1099511628211
	}
	w.states[h] = struct{}{}
}

// onStep runs in the scheduler goroutine after every step.
func (w *World) onStep(ran *simcore.Task) {
	w.pollWatches(ran)
	w.checkIndependence(ran)
	if w.S.Steps()%4 == 0 {
		w.recordState()
	}
}

// simMetrics is the statedb.Metrics seam: observation only.
type simMetrics struct {
	graveyard map[string]int
	objects   map[string]int
	trackers  map[string]int
	revision  map[string]uint64
	lowWater  map[string]uint64
	gcRounds  int
	trace     func(string, int)
}

func newSimMetrics() *simMetrics {
	return &simMetrics{graveyard: map[string]int{}, objects: map[string]int{}, trackers: map[string]int{}, revision: map[string]uint64{}, lowWater: map[string]uint64{}}
}

func (m *simMetrics) WriteTxnTableAcquisition(handle string, tableName string, acquire time.Duration) {
}
func (m *simMetrics) WriteTxnTotalAcquisition(handle string, tables []string, acquire time.Duration) {
}
func (m *simMetrics) WriteTxnDuration(handle string, tables []string, acquire time.Duration) {}
func (m *simMetrics) GraveyardLowWatermark(tableName string, lowWatermark statedb.Revision) {
	m.lowWater[tableName] = lowWatermark
	m.gcRounds++
}
func (m *simMetrics) GraveyardCleaningDuration(tableName string, duration time.Duration) {}
func (m *simMetrics) GraveyardObjectCount(tableName string, n int) {
	m.graveyard[tableName] = n
	if m.trace != nil {
		m.trace(tableName, n)
	}
}
func (m *simMetrics) ObjectCount(tableName string, n int)        { m.objects[tableName] = n }
func (m *simMetrics) DeleteTrackerCount(tableName string, n int) { m.trackers[tableName] = n }
func (m *simMetrics) Revision(tableName string, revision statedb.Revision) {
	m.revision[tableName] = revision
}

// checkIndependence: a blocked task waits only for a transaction that shares a
// table with its own request (or for the short root section, whose holder never
// waits itself); readers never park at a synchronisation point (C10).
// checkCollectorLocks: graveyard collection may only take the locks of tables that have retained
// deleted objects; otherwise writers of an unrelated table are delayed by the collection of others
// (and by whoever holds a table the collector waits for).
func (w *World) checkCollectorLocks() {
	if w.db == nil || len(w.tables) == 0 {
		return
	}
	rtxn := w.db.ReadTxn()
	n := len(w.db.GetTables(rtxn))
	for ti, tc := range w.tables {
		if ti < n && !w.everDead[ti] && statedb.VerifGraveyardLen(rtxn, tc.T) > 0 {
			w.everDead[ti] = true
		}
	}
	for _, t := range w.S.Tasks() {
		if !t.Adopted || !strings.Contains(t.Name, "@gc.") {
			continue
		}
		var locks []*simcore.SimLock
		if l := t.WaitsFor(); l != nil && t.State() == simcore.StParked {
			locks = append(locks, l)
		}
		for _, l := range w.S.Locks() {
			if l.Owner == t {
				locks = append(locks, l)
			}
		}
		for _, l := range locks {
			if ti, ok := w.lockTable[l]; ok && !w.everDead[ti] {
				w.violate("C10", "collector-locks-clean-table", "the graveyard collector takes the lock of table %s, which never retained a deleted object: its writers are delayed by the collection of other tables", w.tables[ti].M.Name)
				return
			}
		}
	}
}

func (w *World) checkIndependence(ran *simcore.Task) {
	w.checkCollectorLocks()
	if w.S.Failed() {
		return
	}
	if tx := tctx(ran); tx != nil && (tx.role == "reader" || tx.role == "watcher" || tx.role == "prober") {
		if ran.State() == simcore.StParked && !strings.HasPrefix(ran.Point(), "h:") {
			w.violate("C10", "reader-waits", "%s, which only reads, is parked at synchronisation point %s", ran.Name, ran.Point())
			return
		}
	}
	for _, b := range w.S.Tasks() {
		if b.State() != simcore.StParked {
			continue
		}
		l := b.WaitsFor()
		if l == nil || l.Owner == nil {
			continue
		}
		o := l.Owner
		rootLock := b.Point() == "commit.rootLock" || b.Point() == "register.lock"
		if rootLock {
			if ol := o.WaitsFor(); o.State() == simcore.StParked && ol != nil && ol.Owner != nil {
				w.violate("C10", "root-holder-waits", "%s holds the root lock and waits for %s held by %s while %s waits for the root lock", o.Name, ol.Name, ol.Owner.Name, b.Name)
				return
			}
			w.probe("waited-for-root-section")
			continue
		}
		bt, ot := tctx(b), tctx(o)
		if bt == nil || ot == nil || bt.holding == nil {
			continue
		}
		shared := false
		for _, x := range bt.holding {
			for _, y := range ot.holding {
				if x == y {
					shared = true
				}
			}
		}
		if !shared {
			w.violate("C10", "blocked-by-unrelated-txn", "%s requested tables %v and is blocked on %s held by %s whose transaction holds tables %v: no table in common", b.Name, bt.holding, l.Name, o.Name, ot.holding)
			return
		}
		w.probe("waited-for-conflicting-txn")
	}
}
