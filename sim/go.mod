module verif/sim

go 1.26

require (
	github.com/cilium/hive v1.0.4
	github.com/cilium/statedb v0.0.0
	go.yaml.in/yaml/v3 v3.0.4
	golang.org/x/time v0.15.0
)

require (
	github.com/cilium/stream v0.0.1 // indirect
	github.com/davecgh/go-spew v1.1.2-0.20180830191138-d8f796af33cc // indirect
	github.com/fsnotify/fsnotify v1.7.0 // indirect
	github.com/hashicorp/hcl v1.0.0 // indirect
	github.com/liggitt/tabwriter v0.0.0-20181228230101-89fcab3d43de // indirect
	github.com/magiconair/properties v1.8.7 // indirect
	github.com/mitchellh/mapstructure v1.5.0 // indirect
	github.com/pelletier/go-toml/v2 v2.1.0 // indirect
	github.com/sagikazarmark/slog-shim v0.1.0 // indirect
	github.com/spf13/afero v1.11.0 // indirect
	github.com/spf13/cast v1.6.0 // indirect
	github.com/spf13/cobra v1.10.2 // indirect
	github.com/spf13/pflag v1.0.10 // indirect
	github.com/spf13/viper v1.18.2 // indirect
	github.com/subosito/gotenv v1.6.0 // indirect
	go.uber.org/dig v1.17.1 // indirect
	golang.org/x/sys v0.17.0 // indirect
	golang.org/x/term v0.16.0 // indirect
	golang.org/x/text v0.14.0 // indirect
	golang.org/x/tools v0.17.0 // indirect
	gopkg.in/ini.v1 v1.67.0 // indirect
	gopkg.in/yaml.v3 v3.0.1 // indirect
)

replace github.com/cilium/statedb => /repo
