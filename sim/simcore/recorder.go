package simcore

import "fmt"

// Recorder is the event log and violation holder for worlds that do not need
// the goroutine scheduler (single-goroutine interleaving of logical actors).
type Recorder struct {
	Log       []string
	limit     int
	hash      uint64
	seq       uint64
	violation *Violation
	Steps     int
}

// NewRecorder creates a recorder keeping the full log iff full.
func NewRecorder(full bool) *Recorder {
	r := &Recorder{limit: 60, hash: 1469598103934665603}
	if full {
		r.limit = 100000
	}
	return r
}

// Logf appends an event.
func (r *Recorder) Logf(format string, args ...any) {
	r.seq++
	var line string
	if len(r.Log) < r.limit {
		line = fmt.Sprintf(format, args...)
		r.Log = append(r.Log, fmt.Sprintf("%d %s", r.seq, line))
	} else {
		line = fmt.Sprintf(format, args...)
	}
	h := r.hash
	for i := 0; i < len(line); i++ {
		h ^= uint64(line[i])
		h *= 1099511628211
	}
	h ^= 0xff
	h *= 1099511628211
	r.hash = h
}

// Violate records the first oracle failure.
func (r *Recorder) Violate(prop, oracle, format string, args ...any) {
	if r.violation != nil {
		return
	}
	r.violation = &Violation{Property: prop, Oracle: oracle, Detail: fmt.Sprintf(format, args...), Step: r.Steps, Seq: r.seq}
	r.limit += 5
	r.Logf("VIOLATION %s/%s: %s", prop, oracle, r.violation.Detail)
}

// Failed reports whether a violation was recorded.
func (r *Recorder) Failed() bool { return r.violation != nil }

// Violation returns the recorded violation.
func (r *Recorder) Violation() *Violation { return r.violation }

// Hash returns the log fingerprint.
func (r *Recorder) Hash() string { return fmt.Sprintf("%016x", r.hash) }
