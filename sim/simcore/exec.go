package simcore

import (
	"fmt"
	"runtime"
	"strings"
	"testing"
	"testing/synctest"
)

// RunResult is what one execution of a world produces.
type RunResult struct {
	Seed      uint64         `json:"seed"`
	Choices   []uint32       `json:"choices"`
	Violation *Violation     `json:"violation,omitempty"`
	Foreign   []Violation    `json:"foreign,omitempty"`
	Stats     Stats          `json:"stats"`
	LogHash   string         `json:"log_hash"`
	Log       []string       `json:"log,omitempty"`
	Probes    map[string]int `json:"probes,omitempty"` // rare-condition probes and fault firings
	Faults    map[string]int `json:"faults,omitempty"`
	Desc      string         `json:"desc,omitempty"` // configuration of the run, human readable
	Progress  int            `json:"progress"`       // world-defined amount of real progress (commits, operations)
	StateHash []uint64       `json:"-"`              // abstract states visited
	Harness   string         `json:"harness_error,omitempty"`
}

// Trivial reports whether the run made no real progress.
func (r *RunResult) Trivial() bool {
	return r.Progress == 0
}

// World executes one run driven by the given choice stream. full requests the
// complete event log (replay / reporting).
type World func(t *testing.T, prop string, tier string, c *Choices, full bool) *RunResult

// InBubble runs body on the root goroutine of a fresh synctest bubble and
// recovers the end-of-bubble deadlock panic (goroutines left blocked by a
// run that ended in a violation).
func InBubble(t *testing.T, body func()) (leaked bool, perr any) {
	defer func() {
		if r := recover(); r != nil {
			msg := fmt.Sprint(r)
			if strings.Contains(msg, "deadlock") {
				leaked = true
				return
			}
			buf := make([]byte, 8192)
			n := runtime.Stack(buf, false)
			perr = fmt.Sprintf("%v\n%s", r, buf[:n])
		}
	}()
	synctest.Test(t, func(t *testing.T) {
		body()
	})
	return
}
