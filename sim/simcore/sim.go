package simcore

import (
	"fmt"
	"hash/fnv"
	"runtime"
	"sort"
	"strings"
	"sync"
	"sync/atomic"
	"testing/synctest"
	"time"
)

// TaskState is the scheduler's view of a task.
type TaskState int

const (
	StNew      TaskState = iota
	StParked             // parked at a hook point or harness step, waiting for the turn
	StRunning            // has the turn
	StExternal           // has the turn but is durably blocked on a Go primitive (timer, channel)
	StDone
)

// abortSentinel unwinds harness tasks once a run is aborted.
type abortSentinel struct{}

// IsAbort reports whether a recovered panic value is the simulator's unwinding sentinel.
func IsAbort(r any) bool {
	_, ok := r.(abortSentinel)
	return ok
}

// Task is a goroutine under scheduler control.
type Task struct {
	ID      int
	Name    string
	Adopted bool // goroutine started by the code under test, registered at its first hook
	Op      string
	Data    any

	sim    *Sim
	goid   uint64
	resume chan struct{}
	state  TaskState
	point  string

	wantLock *SimLock
	cond     func() bool
	hasWake  bool
	wakeAt   time.Time

	frozenUntil int // scheduler step until which the task is not picked (unless nothing else runs)
	stallUntil  time.Time
	hasStall    bool

	prio  int
	steps int
	stuck bool // self-deadlocked: never resumed again

	// Acquired lists the simulated locks granted to the task since the world last cleared it.
	Acquired []*SimLock
}

// Point returns the hook point or step label the task is parked at.
func (t *Task) Point() string { return t.point }

// State returns the scheduler state of the task.
func (t *Task) State() TaskState { return t.state }

// SimLock is the simulated layer over a real mutex.
type SimLock struct {
	Name    string
	Owner   *Task
	key     any
	Acq     int
	Waiters int
}

// Violation describes the first oracle failure of a run.
type Violation struct {
	Property string `json:"property"`
	Oracle   string `json:"oracle"`
	Detail   string `json:"detail"`
	Step     int    `json:"step"`
	Seq      uint64 `json:"seq"`
}

// Signature is what the shrinker preserves.
func (v *Violation) Signature() string { return v.Property + "/" + v.Oracle }

// Config holds the scheduler's per-run knobs (drawn from the choice stream by the world).
type Config struct {
	StepLimit    int
	Strategy     int // 0 sticky random walk, 1 PCT, 2 uniform
	StickNum     int // sticky: probability StickNum/StickDen of continuing the current task
	StickDen     int
	PCTDepth     int
	PausePoints  map[string]bool // targeted pause points
	PauseNum     int             // probability PauseNum/PauseDen of freezing a task that parks at a pause point
	PauseDen     int
	PauseMax     int // maximum freeze length in scheduler steps
	PauseBudget  int // maximum number of freezes per run
	StallNum     int // probability of stalling a parked task for virtual time (holding whatever it holds)
	StallDen     int
	StallMax     time.Duration
	IdleNum      int // probability per step of letting virtual time pass although tasks are runnable
	IdleDen      int
	IdleMax      time.Duration
	IdleBudget   time.Duration // virtual time without any runnable task after which "no progress" is reported
	KeepFullLog  bool
	InBubble     bool // false: no synctest bubble (partworld); tasks are not used
	DeadlockProp string
}

// Stats are per-run measurements.
type Stats struct {
	Steps        int
	Preemptions  int            // scheduler switched away from a task that was still runnable
	PreemptAt    map[string]int // hook point at which the preempted task was parked
	Freezes      int
	Stalls       int
	Idles        int
	LockWaits    int
	VirtualNanos int64
	Adopted      int
	Truncated    bool // step limit hit
}

// Sim is one simulated run.
type Sim struct {
	C   *Choices
	Cfg Config

	mu        sync.Mutex
	tasks     []*Task
	byGoid    map[uint64]*Task
	pending   []*Task // adopted, not yet numbered
	cur       *Task
	prev      *Task
	locks     map[any]*SimLock
	lockOrder []*SimLock
	notify    chan struct{}
	schedGoid uint64

	yieldPass atomic.Bool
	aborted   atomic.Bool

	seq      uint64
	logHash  uint64
	Log      []string
	logLimit int

	violation *Violation
	Foreign   []Violation

	pctChange map[int]bool
	pauses    int
	start     time.Time
	idleSince time.Duration

	Stats Stats

	// OnStep is called by the scheduler goroutine after every step (all tasks
	// parked or blocked). It must not call hooked code.
	OnStep func(ran *Task)
	// OnIdle is called before the scheduler lets virtual time pass.
	OnIdle func()
}

// NewSim creates a simulator for one run.
func NewSim(c *Choices, cfg Config) *Sim {
	s := &Sim{
		C:        c,
		Cfg:      cfg,
		byGoid:   map[uint64]*Task{},
		locks:    map[any]*SimLock{},
		notify:   make(chan struct{}, 1),
		logLimit: 400,
	}
	if cfg.KeepFullLog {
		s.logLimit = 200000
	}
	if s.Cfg.StepLimit == 0 {
		s.Cfg.StepLimit = 2000
	}
	if s.Cfg.IdleBudget == 0 {
		s.Cfg.IdleBudget = time.Hour
	}
	s.Stats.PreemptAt = map[string]int{}
	h := fnv.New64a()
	s.logHash = h.Sum64()
	return s
}

func goid() uint64 {
	var buf [64]byte
	n := runtime.Stack(buf[:], false)
	// "goroutine 123 ["
	var id uint64
	for _, b := range buf[10:n] {
		if b < '0' || b > '9' {
			break
		}
		id = id*10 + uint64(b-'0')
	}
	return id
}

// Logf appends an event to the run's log. Only the scheduler and the task
// holding the turn log, so the order is a function of the schedule.
func (s *Sim) Logf(format string, args ...any) {
	line := fmt.Sprintf(format, args...)
	s.mu.Lock()
	s.logLine(line)
	s.mu.Unlock()
}

func (s *Sim) logLine(line string) {
	s.seq++
	h := s.logHash
	for i := 0; i < len(line); i++ {
		h ^= uint64(line[i])
		h *= 1099511628211
	}
	h ^= 0xff
	h *= 1099511628211
	s.logHash = h
	if len(s.Log) < s.logLimit {
		s.Log = append(s.Log, fmt.Sprintf("%d %s", s.seq, line))
	}
}

// Note appends a line to the log that is not part of the run's fingerprint: details that depend on
// choices the runtime makes (e.g. revisions assigned in Go map iteration order inside the code under test).
func (s *Sim) Note(format string, args ...any) {
	s.mu.Lock()
	if len(s.Log) < s.logLimit {
		s.Log = append(s.Log, "    note: "+fmt.Sprintf(format, args...))
	}
	s.mu.Unlock()
}

// Seq returns the current global event sequence number and advances it.
func (s *Sim) Seq() uint64 {
	s.mu.Lock()
	s.seq++
	v := s.seq
	s.mu.Unlock()
	return v
}

// LogHash is the fingerprint of the event log so far.
func (s *Sim) LogHash() uint64 {
	s.mu.Lock()
	defer s.mu.Unlock()
	return s.logHash
}

// Violate records an oracle failure; the first one ends the run.
func (s *Sim) Violate(prop, oracle, format string, args ...any) {
	if s.aborted.Load() {
		// the run is being torn down: tasks are released without the scheduler's guarantees
		return
	}
	detail := fmt.Sprintf(format, args...)
	s.mu.Lock()
	if s.violation == nil {
		s.violation = &Violation{Property: prop, Oracle: oracle, Detail: detail, Step: s.Stats.Steps, Seq: s.seq}
		s.logLine(fmt.Sprintf("VIOLATION %s/%s: %s", prop, oracle, detail))
	}
	s.mu.Unlock()
}

// Violation returns the recorded violation, if any.
func (s *Sim) Violation() *Violation {
	s.mu.Lock()
	defer s.mu.Unlock()
	return s.violation
}

// Failed reports whether a violation has been recorded.
func (s *Sim) Failed() bool { return s.Violation() != nil }

// Aborted reports whether the run is being torn down.
func (s *Sim) Aborted() bool { return s.aborted.Load() }

// Cur returns the task holding the turn (valid in OnStep: the task that ran last).
func (s *Sim) Cur() *Task { return s.cur }

// Tasks returns all tasks.
func (s *Sim) Tasks() []*Task { return s.tasks }

// Now returns virtual time since the start of the run.
func (s *Sim) Now() time.Duration { return time.Since(s.start) }

// Steps returns the number of scheduler steps so far.
func (s *Sim) Steps() int { return s.Stats.Steps }

// Spawn registers a harness task. It starts parked; the scheduler decides when it runs.
func (s *Sim) Spawn(name string, fn func(t *Task)) *Task {
	t := &Task{Name: name, sim: s, resume: make(chan struct{}, 1), state: StParked, point: "spawn"}
	s.mu.Lock()
	t.ID = len(s.tasks)
	s.tasks = append(s.tasks, t)
	t.prio = 1000 + s.C.Choose(1000)
	s.mu.Unlock()
	ready := make(chan struct{})
	go func() {
		t.goid = goid()
		s.mu.Lock()
		s.byGoid[t.goid] = t
		s.mu.Unlock()
		close(ready)
		<-t.resume
		defer func() {
			r := recover()
			if r != nil {
				if _, ok := r.(abortSentinel); !ok {
					buf := make([]byte, 4096)
					n := runtime.Stack(buf, false)
					s.Violate("HARNESS", "panic", "task %s panicked: %v\n%s", t.Name, r, buf[:n])
				}
			}
			s.mu.Lock()
			t.state = StDone
			delete(s.byGoid, t.goid)
			s.mu.Unlock()
			s.signal()
		}()
		if s.aborted.Load() {
			return
		}
		fn(t)
	}()
	<-ready
	return t
}

func (s *Sim) signal() {
	select {
	case s.notify <- struct{}{}:
	default:
	}
}

// current returns the task of the calling goroutine, adopting it if unknown.
func (s *Sim) current(point string) *Task {
	g := goid()
	s.mu.Lock()
	t := s.byGoid[g]
	if t == nil {
		if g == s.schedGoid {
			s.mu.Unlock()
			panic("simcore: scheduler goroutine reached hook point " + point)
		}
		t = &Task{Name: "adopted@" + point, Adopted: true, sim: s, goid: g, resume: make(chan struct{}, 1), state: StRunning, ID: -1, prio: 500}
		s.byGoid[g] = t
		s.pending = append(s.pending, t)
	}
	s.mu.Unlock()
	return t
}

// park gives the turn back and blocks until the scheduler resumes the task.
func (t *Task) park(point string) {
	s := t.sim
	s.mu.Lock()
	t.state = StParked
	t.point = point
	s.mu.Unlock()
	s.signal()
	<-t.resume
	if s.aborted.Load() && !t.Adopted && t.inHarness() {
		panic(abortSentinel{})
	}
}

func (t *Task) inHarness() bool { return strings.HasPrefix(t.point, "h:") }

// HookYield is installed as the code under test's Yield hook.
func (s *Sim) HookYield(point string) {
	if s.yieldPass.Load() {
		return
	}
	t := s.current(point)
	t.park(point)
}

// HookAcquire is installed as the Acquire hook: the caller is parked until the
// simulated lock is free, so the real Lock() that follows never blocks.
func (s *Sim) HookAcquire(key any, point string) {
	t := s.current(point)
	s.mu.Lock()
	l := s.locks[key]
	if l == nil {
		l = &SimLock{Name: fmt.Sprintf("L%d", len(s.lockOrder)), key: key}
		s.locks[key] = l
		s.lockOrder = append(s.lockOrder, l)
	}
	if l.Owner == t {
		s.mu.Unlock()
		s.Violate(s.deadlockProp(), "self-deadlock", "task %s re-acquires lock %s it already owns at %s", t.Name, l.Name, point)
		// Do not proceed into the real Lock(): it would block forever (and not durably).
		// The goroutine stays parked for good, also while draining.
		t.wantLock = nil
		t.stuck = true
		t.cond = func() bool { return false }
		for {
			t.park(point)
		}
	}
	t.wantLock = l
	s.mu.Unlock()
	t.park(point)
}

// LocksOwnedBy names the simulated locks task t currently owns.
func (s *Sim) LocksOwnedBy(t *Task) []string {
	s.mu.Lock()
	defer s.mu.Unlock()
	var out []string
	for _, l := range s.lockOrder {
		if l.Owner == t {
			out = append(out, l.Name)
		}
	}
	return out
}

func (s *Sim) deadlockProp() string {
	if s.Cfg.DeadlockProp != "" {
		return s.Cfg.DeadlockProp
	}
	return "C10"
}

// HookRelease is installed as the Release hook.
func (s *Sim) HookRelease(key any, point string) {
	t := s.current(point)
	s.mu.Lock()
	if l := s.locks[key]; l != nil && l.Owner == t {
		l.Owner = nil
	}
	s.mu.Unlock()
	if s.yieldPass.Load() {
		s.signal()
		return
	}
	t.park(point)
}

// Step is a harness-level yield between API calls.
func (t *Task) Step(label string) {
	s := t.sim
	if s.aborted.Load() {
		panic(abortSentinel{})
	}
	t.park("h:" + label)
}

// WaitUntil parks the task until cond() holds (evaluated by the scheduler
// after every step) or the virtual timeout expires (0 = no timeout).
// Returns true if the condition held.
func (t *Task) WaitUntil(label string, timeout time.Duration, cond func() bool) bool {
	s := t.sim
	if s.aborted.Load() {
		panic(abortSentinel{})
	}
	s.mu.Lock()
	t.cond = cond
	if timeout > 0 {
		t.hasWake = true
		t.wakeAt = time.Now().Add(timeout)
	}
	s.mu.Unlock()
	t.park("h:" + label)
	return cond()
}

// Sleep parks the task for a virtual duration.
func (t *Task) Sleep(label string, d time.Duration) {
	t.WaitUntil(label, d, func() bool { return false })
}

// Calm ends fault injection by the scheduler: no further stalls, freezes or
// idle steps, and pending ones are lifted (liveness is checked after faults stop).
func (s *Sim) Calm() {
	s.Cfg.StallNum = 0
	s.Cfg.IdleNum = 0
	s.Cfg.PausePoints = nil
	for _, t := range s.tasks {
		t.hasStall = false
		t.frozenUntil = 0
	}
}

// Freeze keeps the task from being picked for the next n scheduler steps
// (unless nothing else can run).
func (s *Sim) Freeze(t *Task, n int) {
	t.frozenUntil = s.Stats.Steps + n
	s.Stats.Freezes++
}

// LockOwnerOf returns the task owning the simulated lock t waits for, if any.
func (t *Task) WaitsFor() *SimLock { return t.wantLock }

// Locks returns the simulated locks in order of first acquisition.
func (s *Sim) Locks() []*SimLock { return s.lockOrder }

func (s *Sim) runnable(t *Task, now time.Time) bool {
	if t.state != StParked {
		return false
	}
	if t.hasStall {
		if now.Before(t.stallUntil) {
			return false
		}
		t.hasStall = false
	}
	if t.wantLock != nil {
		return t.wantLock.Owner == nil
	}
	if t.cond != nil {
		if t.hasWake && !now.Before(t.wakeAt) {
			return true
		}
		return t.cond()
	}
	return true
}

func (s *Sim) harnessDone() bool {
	for _, t := range s.tasks {
		if !t.Adopted && t.state != StDone {
			return false
		}
	}
	return true
}

// Run is the scheduler loop. It must be called on the bubble's root goroutine.
func (s *Sim) Run() {
	s.schedGoid = goid()
	if s.start.IsZero() {
		s.start = time.Now()
	}
	if s.Cfg.Strategy == 1 && s.pctChange == nil {
		s.pctChange = map[int]bool{}
		for i := 1; i < s.Cfg.PCTDepth; i++ {
			s.pctChange[s.C.Choose(s.Cfg.StepLimit/2+1)] = true
		}
	}
	var idleAccum time.Duration
	spin := 0
	lastSteps := -1
	for {
		if s.Stats.Steps != lastSteps {
			lastSteps = s.Stats.Steps
			spin = 0
		}
		spin++
		if spin > 200000 {
			var desc []string
			for _, t := range s.tasks {
				desc = append(desc, fmt.Sprintf("%s[state=%d point=%s lock=%v cond=%v wake=%v(%v) stall=%v(%v) frozen=%d]", t.Name, t.state, t.point, t.wantLock != nil, t.cond != nil, t.hasWake, t.wakeAt.Sub(s.start), t.hasStall, t.stallUntil.Sub(s.start), t.frozenUntil))
			}
			s.Violate("HARNESS", "scheduler-spin", "scheduler loop made no step in 200000 iterations at step %d now=%v: %s", s.Stats.Steps, s.Now(), strings.Join(desc, "; "))
			break
		}
		synctest.Wait()
		s.mu.Lock()
		ran := s.cur
		if ran != nil && ran.state == StRunning {
			ran.state = StExternal
		}
		if len(s.pending) > 0 {
			sort.Slice(s.pending, func(i, j int) bool {
				if s.pending[i].point != s.pending[j].point {
					return s.pending[i].point < s.pending[j].point
				}
				return s.pending[i].goid < s.pending[j].goid
			})
			for _, t := range s.pending {
				t.ID = len(s.tasks)
				t.prio = 1000 + s.C.Choose(1000)
				t.Name = fmt.Sprintf("adopted%d@%s", t.ID, t.point)
				s.tasks = append(s.tasks, t)
				s.Stats.Adopted++
				s.logLine("adopt " + t.Name)
			}
			s.pending = nil
		}
		s.mu.Unlock()

		if s.OnStep != nil {
			s.OnStep(ran)
		}
		if s.Failed() {
			break
		}
		if s.harnessDone() {
			break
		}
		if s.Stats.Steps >= s.Cfg.StepLimit {
			s.Stats.Truncated = true
			s.Logf("step limit reached")
			break
		}

		now := time.Now()
		var R []*Task
		var frozen []*Task
		for _, t := range s.tasks {
			if s.runnable(t, now) {
				if t.frozenUntil > s.Stats.Steps {
					frozen = append(frozen, t)
				} else {
					R = append(R, t)
				}
			}
		}
		if len(R) == 0 && len(frozen) > 0 {
			// nothing else can run: thaw the task whose freeze ends first
			sort.SliceStable(frozen, func(i, j int) bool { return frozen[i].frozenUntil < frozen[j].frozenUntil })
			frozen[0].frozenUntil = 0
			R = frozen[:1]
		}
		if len(R) == 0 {
			if s.checkDeadlock() {
				break
			}
			d, ok := s.nextWake(now)
			if !ok {
				d = s.Cfg.IdleBudget - idleAccum
				if d <= 0 {
					s.reportNoProgress()
					break
				}
			}
			if d <= 0 {
				d = time.Nanosecond
			}
			idleAccum += s.idle(d)
			s.cur = nil
			continue
		}
		idleAccum = 0

		// Let virtual time pass although tasks are runnable.
		if s.Cfg.IdleNum > 0 && s.C.Bool(s.Cfg.IdleNum, s.Cfg.IdleDen) {
			d := time.Duration(1+s.C.Choose(1000)) * s.Cfg.IdleMax / 1000
			s.Logf("idle %v", d)
			s.idle(d)
			s.cur = nil
			continue
		}

		t := s.pick(R, ran)
		s.resumeTask(t, ran, R)
	}
	s.Stats.VirtualNanos = int64(time.Since(s.start))
}

func (s *Sim) idle(d time.Duration) time.Duration {
	if s.OnIdle != nil {
		s.OnIdle()
	}
	select {
	case <-s.notify:
	default:
	}
	before := time.Now()
	timer := time.NewTimer(d)
	select {
	case <-s.notify:
	case <-timer.C:
	}
	timer.Stop()
	s.Stats.Idles++
	return time.Since(before)
}

func (s *Sim) nextWake(now time.Time) (time.Duration, bool) {
	var best time.Duration
	found := false
	consider := func(at time.Time) {
		d := at.Sub(now)
		if !found || d < best {
			best = d
			found = true
		}
	}
	for _, t := range s.tasks {
		if t.state != StParked {
			continue
		}
		if t.hasStall {
			consider(t.stallUntil)
			continue
		}
		if t.hasWake && t.cond != nil {
			consider(t.wakeAt)
		}
	}
	return best, found
}

func (s *Sim) pick(R []*Task, ran *Task) *Task {
	// order: the task that ran last first (if runnable), then by id
	sort.SliceStable(R, func(i, j int) bool {
		if (R[i] == ran) != (R[j] == ran) {
			return R[i] == ran
		}
		return R[i].ID < R[j].ID
	})
	switch s.Cfg.Strategy {
	case 1: // PCT
		if s.pctChange[s.Stats.Steps] && ran != nil {
			ran.prio = -s.Stats.Steps // lowest so far
			s.Logf("pct change %s", ran.Name)
		}
		best := R[0]
		for _, t := range R[1:] {
			if t.prio > best.prio {
				best = t
			}
		}
		return best
	case 2:
		return R[s.C.Choose(len(R))]
	default:
		if len(R) == 1 {
			return R[0]
		}
		if R[0] == ran {
			if !s.C.Bool(s.Cfg.StickDen-s.Cfg.StickNum, s.Cfg.StickDen) {
				return R[0]
			}
			return R[1+s.C.Choose(len(R)-1)]
		}
		return R[s.C.Choose(len(R))]
	}
}

func (s *Sim) resumeTask(t *Task, ran *Task, R []*Task) {
	s.mu.Lock()
	if ran != nil && ran != t && ran.state == StParked {
		// was the previous task still runnable? then this is a preemption
		for _, r := range R {
			if r == ran {
				s.Stats.Preemptions++
				s.Stats.PreemptAt[ran.point]++
				break
			}
		}
	}
	if t.wantLock != nil {
		t.wantLock.Owner = t
		t.wantLock.Acq++
		t.Acquired = append(t.Acquired, t.wantLock)
		if len(t.Acquired) > 64 {
			t.Acquired = t.Acquired[32:]
		}
		t.wantLock = nil
	}
	t.cond = nil
	t.hasWake = false
	t.state = StRunning
	t.steps++
	s.cur = t
	s.Stats.Steps++
	s.logLine("run " + t.Name + " @" + t.point)
	s.mu.Unlock()

	// Targeted pause / stall decisions for the *next* time this task parks are
	// taken here, in the scheduler, so that they are part of the choice stream.
	t.resume <- struct{}{}
	synctest.Wait()
	if t.state == StParked {
		if s.Cfg.PausePoints[t.point] && s.pauses < s.Cfg.PauseBudget && s.C.Bool(s.Cfg.PauseNum, s.Cfg.PauseDen) {
			s.pauses++
			n := 1 + s.C.Choose(s.Cfg.PauseMax)
			s.Freeze(t, n)
			s.Logf("freeze %s @%s for %d steps", t.Name, t.point, n)
		} else if s.Cfg.StallNum > 0 && t.cond == nil && s.C.Bool(s.Cfg.StallNum, s.Cfg.StallDen) {
			d := time.Duration(1+s.C.Choose(1000)) * s.Cfg.StallMax / 1000
			t.hasStall = true
			t.stallUntil = time.Now().Add(d)
			s.Stats.Stalls++
			s.Logf("stall %s @%s for %v", t.Name, t.point, d)
		}
	}
}

// checkDeadlock looks for a cycle in the simulated-lock wait-for graph.
func (s *Sim) checkDeadlock() bool {
	for _, t := range s.tasks {
		if t.state != StParked || t.wantLock == nil {
			continue
		}
		seen := map[*Task]bool{}
		var chain []string
		x := t
		for x != nil && x.state == StParked && x.wantLock != nil && x.wantLock.Owner != nil {
			if seen[x] {
				s.Violate(s.deadlockProp(), "deadlock", "wait-for cycle: %s", strings.Join(chain, " -> "))
				return true
			}
			seen[x] = true
			chain = append(chain, fmt.Sprintf("%s waits %s held by %s", x.Name, x.wantLock.Name, x.wantLock.Owner.Name))
			x = x.wantLock.Owner
		}
	}
	return false
}

func (s *Sim) reportNoProgress() {
	var stuck []string
	lockStuck := false
	for _, t := range s.tasks {
		if t.state == StDone {
			continue
		}
		desc := fmt.Sprintf("%s[%d]@%s", t.Name, t.state, t.point)
		if t.wantLock != nil {
			lockStuck = true
			owner := "nobody"
			if t.wantLock.Owner != nil {
				owner = t.wantLock.Owner.Name
			}
			desc += fmt.Sprintf(" wants %s held by %s", t.wantLock.Name, owner)
		}
		stuck = append(stuck, desc)
	}
	if lockStuck {
		s.Violate(s.deadlockProp(), "no-progress", "tasks blocked on locks with nothing runnable for %v: %s", s.Cfg.IdleBudget, strings.Join(stuck, "; "))
	} else {
		s.Violate("HARNESS", "no-progress", "nothing runnable for %v: %s", s.Cfg.IdleBudget, strings.Join(stuck, "; "))
	}
}

// Drain ends the run: harness tasks unwind at their next harness step, Yield
// hooks no longer park, but simulated locks stay in force (a task resumed
// into a real Lock() held by a parked task would block non-durably and hang
// the bubble). Tasks are released one at a time until nothing can run and
// until() (if given) reports true.
func (s *Sim) Drain(until func() bool) {
	s.aborted.Store(true)
	s.yieldPass.Store(true)
	for i := 0; i < 100000; i++ {
		synctest.Wait()
		s.mu.Lock()
		if len(s.pending) > 0 {
			for _, t := range s.pending {
				t.ID = len(s.tasks)
				s.tasks = append(s.tasks, t)
			}
			s.pending = nil
		}
		var next *Task
		for _, t := range s.tasks {
			if t.state != StParked || t.stuck {
				continue
			}
			if t.wantLock != nil && t.wantLock.Owner != nil {
				continue
			}
			next = t
			break
		}
		if next != nil {
			if next.wantLock != nil {
				next.wantLock.Owner = next
				next.wantLock = nil
			}
			next.cond = nil
			next.state = StRunning
		}
		s.mu.Unlock()
		if next == nil {
			if until == nil || until() {
				return
			}
			// wait for background goroutines (timers) to make progress
			select {
			case <-s.notify:
			case <-time.After(time.Hour):
				return
			}
			continue
		}
		next.resume <- struct{}{}
	}
}
