package simcore

import (
	"encoding/binary"
	"encoding/json"
	"fmt"
	"os"
	"regexp"
	"runtime"
	"runtime/debug"
	"sort"
	"strconv"
	"strings"
	"testing"
	"time"
)

// WorkerReport is what one worker process writes for the runner to merge.
type WorkerReport struct {
	Property    string         `json:"property"`
	Tier        string         `json:"tier"`
	BaseSeed    uint64         `json:"base_seed"`
	Worker      int            `json:"worker"`
	Workers     int            `json:"workers"`
	Runs        int            `json:"runs"`
	NonTrivial  int            `json:"nontrivial"`
	Truncated   int            `json:"truncated"`
	Steps       int64          `json:"steps"`
	Preemptions int64          `json:"preemptions"`
	PreemptAt   map[string]int `json:"preempt_at"`
	VirtualSec  float64        `json:"virtual_sec"`
	Probes      map[string]int `json:"probes"`
	Faults      map[string]int `json:"faults"`
	FaultRuns   map[string]int `json:"fault_runs"` // runs in which the fault kind fired at least once
	Foreign     map[string]int `json:"foreign"`
	WallSec     float64        `json:"wall_sec"`
	Samples     []Sample       `json:"samples"`
	Failure     *Failure       `json:"failure,omitempty"`
	Harness     []string       `json:"harness_errors,omitempty"`
	Leaked      int            `json:"leaked_bubbles"`
	Known       map[string]int `json:"known"`
	ForeignEx   []string       `json:"foreign_examples"`
	Rechecked   int            `json:"rechecked"`        // runs executed a second time from the same seed
	RecheckSame int            `json:"recheck_same_log"` // ... of which the event log was identical
}

type knownFinding struct {
	Signature string `json:"signature"`
	Regex     string `json:"regex"`
	re        *regexp.Regexp
}

// Sample is one run written out for the evidence file.
type Sample struct {
	RunIndex int      `json:"run_index"`
	Seed     uint64   `json:"seed"`
	Desc     string   `json:"config"`
	Events   []string `json:"first_events"`
	Progress int      `json:"progress"`
}

// Failure is a minimised violation.
type Failure struct {
	RunIndex    int        `json:"run_index"`
	Seed        uint64     `json:"seed"`
	Violation   *Violation `json:"violation"`
	FullChoices []uint32   `json:"full_choices"`
	MinChoices  []uint32   `json:"min_choices"`
	ShrinkExecs int        `json:"shrink_execs"`
	LogHash     string     `json:"log_hash"`
	Log         []string   `json:"log"`
	Desc        string     `json:"config"`
}

func envInt(name string, def int) int {
	if v := os.Getenv(name); v != "" {
		if n, err := strconv.Atoi(v); err == nil {
			return n
		}
	}
	return def
}

func envU64(name string, def uint64) uint64 {
	if v := os.Getenv(name); v != "" {
		if n, err := strconv.ParseUint(v, 10, 64); err == nil {
			return n
		}
		if n, err := strconv.ParseInt(v, 10, 64); err == nil {
			return uint64(n)
		}
	}
	return def
}

// ReplayFile is the on-disk form of a reported violation.
type ReplayFile struct {
	Property  string     `json:"property"`
	World     string     `json:"world"`
	Tier      string     `json:"tier"`
	BaseSeed  uint64     `json:"base_seed"`
	RunIndex  int        `json:"run_index"`
	Seed      uint64     `json:"run_seed"`
	Violation *Violation `json:"violation"`
	Signature string     `json:"signature"`
	Choices   []uint32   `json:"choices"`
	Full      []uint32   `json:"full_choices"`
	LogHash   string     `json:"log_hash"`
	Log       []string   `json:"log"`
	Desc      string     `json:"config"`
	GoVersion string     `json:"go_version"`
	RepoHead  string     `json:"repo_head"`
	RepoDirty string     `json:"repo_diff_hash"`
}

// WorkerMain is the body of every world's TestSim: it either replays one
// choice sequence or executes this worker's share of a batch.
func WorkerMain(t *testing.T, worldName string, world World) {
	prop := os.Getenv("VERIF_PROP")
	if prop == "" {
		t.Skip("VERIF_PROP not set; this binary is driven by /verif/check")
	}
	tier := os.Getenv("VERIF_TIER")
	if tier == "" {
		tier = "quick"
	}
	out := os.Getenv("VERIF_OUT")

	if rp := os.Getenv("VERIF_REPLAY"); rp != "" {
		data, err := os.ReadFile(rp)
		if err != nil {
			fmt.Printf("HARNESS-ERROR cannot read replay file: %v\n", err)
			os.Exit(2)
		}
		var rf ReplayFile
		if err := json.Unmarshal(data, &rf); err != nil {
			fmt.Printf("HARNESS-ERROR cannot parse replay file: %v\n", err)
			os.Exit(2)
		}
		res := world(t, rf.Property, rf.Tier, ReplayChoices(rf.Choices), true)
		rep := map[string]any{"log_hash": res.LogHash, "violation": res.Violation, "log": res.Log, "harness": res.Harness}
		b, _ := json.MarshalIndent(rep, "", " ")
		if out != "" {
			os.WriteFile(out, b, 0o644)
		}
		if res.Violation != nil {
			fmt.Printf("REPLAY violation signature=%s log_hash=%s\n", res.Violation.Signature(), res.LogHash)
		} else {
			fmt.Printf("REPLAY no violation log_hash=%s\n", res.LogHash)
		}
		return
	}

	base := envU64("VERIF_SEED", 1)
	worker := envInt("VERIF_WORKER", 0)
	workers := envInt("VERIF_WORKERS", 1)
	runs := envInt("VERIF_RUNS", 100)
	maxSec := envInt("VERIF_MAXSEC", 0)
	dumpHashes := os.Getenv("VERIF_DUMP_HASHES") != ""
	trace := os.Getenv("VERIF_TRACE") != ""

	if only := os.Getenv("VERIF_ONLY"); only != "" {
		i := envInt("VERIF_ONLY", 0)
		seed := RunSeed(base, prop, i)
		res := world(t, prop, tier, NewChoices(seed), true)
		for _, l := range res.Log {
			fmt.Println(l)
		}
		fmt.Printf("ONLY run=%d seed=%d desc=%s\nviolation=%+v foreign=%+v harness=%s progress=%d\n", i, seed, res.Desc, res.Violation, res.Foreign, res.Harness, res.Progress)
		runtime.GC()
		runtime.GC()
		time.Sleep(50 * time.Millisecond)
		return
	}
	rep := &WorkerReport{
		Property: prop, Tier: tier, BaseSeed: base, Worker: worker, Workers: workers,
		PreemptAt: map[string]int{}, Probes: map[string]int{}, Faults: map[string]int{},
		FaultRuns: map[string]int{}, Foreign: map[string]int{},
	}
	var known []knownFinding
	if kf := os.Getenv("VERIF_KNOWN"); kf != "" {
		if err := json.Unmarshal([]byte(kf), &known); err != nil {
			fmt.Printf("HARNESS-ERROR bad VERIF_KNOWN: %v\n", err)
			os.Exit(2)
		}
		for i := range known {
			known[i].re = regexp.MustCompile(known[i].Regex)
		}
	}
	rep.Known = map[string]int{}
	isKnown := func(v *Violation) bool {
		for _, k := range known {
			if k.Signature == v.Signature() && k.re.MatchString(v.Detail) {
				return true
			}
		}
		return false
	}
	var hashes []uint64
	var states []uint64
	var perRun []string
	start := time.Now()

	for i := worker; i < runs; i += workers {
		if maxSec > 0 && time.Since(start) > time.Duration(maxSec)*time.Second {
			break
		}
		seed := RunSeed(base, prop, i)
		if out != "" {
			// progress marker: lets the runner find the run that crashed the process
			os.WriteFile(out+".cur", []byte(fmt.Sprintf("%d %d", i, seed)), 0o644)
		}
		if trace {
			fmt.Printf("RUN %d seed %d\n", i, seed)
		}
		c := NewChoices(seed)
		res := world(t, prop, tier, c, false)
		if trace {
			runtime.GC()
			runtime.GC()
			time.Sleep(10 * time.Millisecond)
		}
		rep.Runs++
		if res.Harness != "" {
			rep.Harness = append(rep.Harness, fmt.Sprintf("run %d seed %d: %s", i, seed, res.Harness))
			if len(rep.Harness) > 5 {
				break
			}
			continue
		}
		if dumpHashes {
			perRun = append(perRun, fmt.Sprintf("%d %s", i, res.LogHash))
		}
		rep.Steps += int64(res.Stats.Steps)
		rep.Preemptions += int64(res.Stats.Preemptions)
		for k, v := range res.Stats.PreemptAt {
			rep.PreemptAt[k] += v
		}
		rep.VirtualSec += float64(res.Stats.VirtualNanos) / 1e9
		for k, v := range res.Probes {
			rep.Probes[k] += v
		}
		for k, v := range res.Faults {
			rep.Faults[k] += v
			if v > 0 {
				rep.FaultRuns[k]++
			}
		}
		for _, f := range res.Foreign {
			if strings.HasSuffix(f.Signature(), "/panic") {
				// see below: an unfinished internal transaction may have been leaked
				debug.SetGCPercent(-1)
				debug.SetMemoryLimit(3 << 30)
			}
			rep.Foreign[f.Signature()]++
			if len(rep.ForeignEx) < 3 {
				rep.ForeignEx = append(rep.ForeignEx, fmt.Sprintf("run %d: %s: %s", i, f.Signature(), f.Detail))
			}
		}
		if res.Stats.Truncated {
			rep.Truncated++
		}
		if !res.Trivial() && len(res.Foreign) == 0 {
			rep.NonTrivial++
			h, _ := strconv.ParseUint(res.LogHash, 16, 64)
			hashes = append(hashes, h)
		}
		states = append(states, res.StateHash...)
		if len(rep.Samples) < 2 && !res.Trivial() && res.Violation == nil {
			ev := res.Log
			if len(ev) > 40 {
				ev = ev[:40]
			}
			rep.Samples = append(rep.Samples, Sample{RunIndex: i, Seed: seed, Desc: res.Desc, Events: ev, Progress: res.Progress})
		}
		// determinism sample: every 64th run is executed again from the same seed; the share of identical
		// event logs is reported (worlds exposed to runtime coins are expected to be below 100%)
		if i%64 == 0 && res.Violation == nil && len(res.Foreign) == 0 {
			again := world(t, prop, tier, NewChoices(seed), false)
			rep.Rechecked++
			if again.LogHash == res.LogHash {
				rep.RecheckSame++
			}
		}
		if res.Violation != nil && isKnown(res.Violation) {
			rep.Known[res.Violation.Signature()]++
			continue
		}
		if res.Violation != nil {
			// A violating run may leave a write transaction of the code under test unfinished in a place
			// the harness cannot reach (e.g. inside ChangeIterator.Close); statedb's finalizer would panic
			// when such a handle is collected. This worker ends after minimising, so stop collecting.
			debug.SetGCPercent(-1)
			debug.SetMemoryLimit(3 << 30)
			sig := res.Violation.Signature()
			full := append([]uint32(nil), c.Trace...)
			if out != "" {
				// in case minimising crashes the process: the runner falls back to the unminimised failure
				pre := &Failure{RunIndex: i, Seed: seed, Violation: res.Violation, FullChoices: full, MinChoices: full, LogHash: res.LogHash, Log: res.Log, Desc: res.Desc}
				if b, err := json.Marshal(pre); err == nil {
					os.WriteFile(out+".found", b, 0o644)
				}
			}
			tries := envInt("VERIF_REPRO_TRIES", 1)
			// In worlds exposed to runtime coins (select among ready cases) the same choice stream can fail
			// in a neighbouring oracle of the same property: any violation of the property counts as a reproduction.
			loose := os.Getenv("VERIF_SIG_LOOSE") != ""
			same := func(v *Violation) bool {
				if v == nil || isKnown(v) {
					return false
				}
				if loose {
					return v.Property == res.Violation.Property
				}
				return v.Signature() == sig
			}
			runOnce := func(cand []uint32, full bool) *RunResult {
				rc := ReplayChoices(cand)
				rc.Limit = len(cand)*2 + 2000
				return world(t, prop, tier, rc, full)
			}
			test := func(cand []uint32) bool {
				for k := 0; k < tries; k++ {
					r := runOnce(cand, false)
					if same(r.Violation) {
						return true
					}
				}
				return false
			}
			shrinkExec := envInt("VERIF_SHRINK_EXECS", 3000)
			shrinkSec := envInt("VERIF_SHRINK_SEC", 60)
			min, execs := Shrink(full, test, shrinkExec, time.Duration(shrinkSec)*time.Second)
			var final *RunResult
			for _, cand := range [][]uint32{min, full} {
				for k := 0; k < tries*5; k++ {
					final = runOnce(cand, true)
					if same(final.Violation) {
						break
					}
				}
				if same(final.Violation) {
					min = cand
					break
				}
			}
			f := &Failure{RunIndex: i, Seed: seed, Violation: final.Violation, FullChoices: full, MinChoices: min,
				ShrinkExecs: execs, LogHash: final.LogHash, Log: final.Log, Desc: final.Desc}
			if !same(final.Violation) {
				f.Violation = res.Violation
				rep.Harness = append(rep.Harness, fmt.Sprintf("run %d seed %d: violation %s did not reproduce from its own choice stream", i, seed, sig))
			}
			rep.Failure = f
			break
		}
	}
	rep.WallSec = time.Since(start).Seconds()

	if out != "" {
		b, _ := json.Marshal(rep)
		if err := os.WriteFile(out, b, 0o644); err != nil {
			fmt.Printf("HARNESS-ERROR cannot write report: %v\n", err)
			os.Exit(2)
		}
		writeU64s(out+".hashes", hashes)
		writeU64s(out+".states", states)
		if dumpHashes {
			sort.Strings(perRun)
			f, _ := os.Create(out + ".perrun")
			for _, l := range perRun {
				fmt.Fprintln(f, l)
			}
			f.Close()
		}
	}
	fmt.Printf("WORKER %d/%d prop=%s runs=%d nontrivial=%d wall=%.1fs failure=%v\n", worker, workers, prop, rep.Runs, rep.NonTrivial, rep.WallSec, rep.Failure != nil)
}

func writeU64s(path string, v []uint64) {
	buf := make([]byte, 8*len(v))
	for i, x := range v {
		binary.LittleEndian.PutUint64(buf[i*8:], x)
	}
	os.WriteFile(path, buf, 0o644)
}
