// Package simcore is the deterministic simulator core: the recorded choice
// stream from which every decision of a run is drawn, the seeded scheduler
// that serialises goroutines at hook points, simulated locks, the event log
// and the choice-stream shrinker.
package simcore

import (
	"math/rand/v2"
)

// Choices is the single source of randomness of a run. In record mode values
// are drawn from a PRNG seeded by the run seed and appended to Trace; in
// replay mode values are read from Replay (taken mod n, 0 once exhausted).
// All encodings are arranged such that smaller values are simpler.
type Choices struct {
	rng    *rand.Rand
	replay []uint32
	pos    int
	Trace  []uint32
	// Limit, if > 0, bounds the number of choices a run may draw; beyond it
	// every choice is 0. It guards the shrinker against runaway candidates.
	Limit int
}

// NewChoices returns a recording choice stream for the given run seed.
func NewChoices(seed uint64) *Choices {
	return &Choices{rng: rand.New(rand.NewPCG(seed, seed^0x9e3779b97f4a7c15))}
}

// ReplayChoices returns a choice stream that replays the given values.
func ReplayChoices(values []uint32) *Choices {
	return &Choices{replay: values}
}

// Choose returns a value in [0,n). n <= 1 returns 0 without consuming a choice.
func (c *Choices) Choose(n int) int {
	if n <= 1 {
		return 0
	}
	var v uint32
	if c.rng != nil {
		v = uint32(c.rng.IntN(n))
	} else if c.pos < len(c.replay) {
		v = c.replay[c.pos] % uint32(n)
	}
	c.pos++
	if c.Limit > 0 && c.pos > c.Limit {
		v = 0
	}
	c.Trace = append(c.Trace, v)
	return int(v)
}

// Bool returns true with probability num/den (false is the simple outcome).
func (c *Choices) Bool(num, den int) bool {
	if num <= 0 {
		return false
	}
	if num >= den {
		return true
	}
	// value 0 .. den-1; true for the top 'num' values so that 0 is false.
	return c.Choose(den) >= den-num
}

// Weighted picks an index with probability proportional to weights[i].
// Index 0 should be the simplest alternative.
func (c *Choices) Weighted(weights []int) int {
	total := 0
	for _, w := range weights {
		total += w
	}
	if total <= 0 {
		return 0
	}
	v := c.Choose(total)
	for i, w := range weights {
		if v < w {
			return i
		}
		v -= w
	}
	return len(weights) - 1
}

// Range returns a value in [lo,hi].
func (c *Choices) Range(lo, hi int) int {
	if hi <= lo {
		return lo
	}
	return lo + c.Choose(hi-lo+1)
}

// Pos returns the number of choices drawn so far.
func (c *Choices) Pos() int { return c.pos }

// SplitMix64 derives per-run seeds.
func SplitMix64(x uint64) uint64 {
	x += 0x9e3779b97f4a7c15
	z := x
	z = (z ^ (z >> 30)) * 0xbf58476d1ce4e5b9
	z = (z ^ (z >> 27)) * 0x94d049bb133111eb
	return z ^ (z >> 31)
}

// RunSeed derives the seed of run i of a property's batch.
func RunSeed(base uint64, prop string, i int) uint64 {
	h := SplitMix64(base)
	for _, b := range []byte(prop) {
		h = SplitMix64(h ^ uint64(b))
	}
	return SplitMix64(h ^ uint64(i)*0x100000001b3)
}
