package simcore

import "time"

// Shrink minimises a failing choice sequence. test must return true iff the
// candidate still fails with the same violation signature. Values beyond the
// end of a candidate read as 0, so truncation is always a legal candidate.
func Shrink(values []uint32, test func([]uint32) bool, maxExec int, maxWall time.Duration) ([]uint32, int) {
	start := time.Now()
	execs := 0
	try := func(cand []uint32) bool {
		if execs >= maxExec || time.Since(start) > maxWall {
			return false
		}
		execs++
		return test(cand)
	}
	cur := append([]uint32(nil), values...)

	// strip trailing zeros (equivalent by construction)
	trim := func(v []uint32) []uint32 {
		for len(v) > 0 && v[len(v)-1] == 0 {
			v = v[:len(v)-1]
		}
		return v
	}
	cur = trim(cur)

	improved := true
	for improved && execs < maxExec && time.Since(start) <= maxWall {
		improved = false

		// 1. shortest failing prefix (binary search, then verify)
		lo, hi := 0, len(cur)
		for lo < hi {
			mid := (lo + hi) / 2
			if try(cur[:mid]) {
				hi = mid
			} else {
				lo = mid + 1
			}
		}
		if hi < len(cur) && try(cur[:hi]) {
			cur = trim(append([]uint32(nil), cur[:hi]...))
			improved = true
		}

		// 2. delete chunks
		for size := len(cur) / 2; size >= 1; size /= 2 {
			for i := 0; i+size <= len(cur); {
				cand := append(append([]uint32(nil), cur[:i]...), cur[i+size:]...)
				if try(cand) {
					cur = trim(cand)
					improved = true
				} else {
					i += size
				}
			}
		}

		// 3. zero chunks
		for size := len(cur) / 2; size >= 1; size /= 2 {
			for i := 0; i+size <= len(cur); i += size {
				allZero := true
				for _, v := range cur[i : i+size] {
					if v != 0 {
						allZero = false
						break
					}
				}
				if allZero {
					continue
				}
				cand := append([]uint32(nil), cur...)
				for j := i; j < i+size; j++ {
					cand[j] = 0
				}
				if try(cand) {
					cur = trim(cand)
					improved = true
				}
			}
		}

		// 4. lower individual values
		for i := 0; i < len(cur); i++ {
			for cur[i] > 0 {
				cand := append([]uint32(nil), cur...)
				if cand[i] > 1 {
					cand[i] /= 2
				} else {
					cand[i] = 0
				}
				if try(cand) {
					cur = cand
					improved = true
				} else {
					cand2 := append([]uint32(nil), cur...)
					cand2[i]--
					if cand2[i] != cand[i] && try(cand2) {
						cur = cand2
						improved = true
						continue
					}
					break
				}
			}
		}
		cur = trim(cur)
	}
	return cur, execs
}
