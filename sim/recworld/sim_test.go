package recworld

import (
	"testing"

	"verif/sim/simcore"
)

func TestSim(t *testing.T) {
	simcore.WorkerMain(t, "recworld", Run)
}
