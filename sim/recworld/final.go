package recworld

import (
	"context"
	"fmt"
	"sort"
	"time"

	"github.com/cilium/statedb/reconciler"

	"verif/sim/simcore"
)

// converged reports whether the target of every reconciler equals the table
// and every live object is Done (C14).
func (w *world) converged() (bool, string) {
	w.stuckID = 0
	rtxn := w.db.ReadTxn()
	table := map[uint64]*RObj{}
	for o := range w.table.All(rtxn) {
		table[o.ID] = o
	}
	for _, rc := range w.recs {
		for id, o := range table {
			tv, ok := rc.target[id]
			if !ok || tv != o.Val {
				w.stuckID = id
				return false, fmt.Sprintf("reconciler %d: object %d has val=%d in the table but the target holds %v (present %v)", rc.idx, id, o.Val, tv, ok)
			}
			k := kindOf(w.statusOf(o, rc.idx))
			if k != "Done" {
				if w.refreshEvery > 0 && (k == "Refreshing") {
					continue
				}
				w.stuckID = id
				return false, fmt.Sprintf("reconciler %d: object %d has status %s", rc.idx, id, k)
			}
		}
		for id := range rc.target {
			if _, ok := table[id]; !ok {
				w.stuckID = id
				return false, fmt.Sprintf("reconciler %d: the target still holds object %d which was removed from the table", rc.idx, id)
			}
		}
		if n := len(rc.rounds); n > 0 && rc.rounds[n-1].current != 0 {
			return false, fmt.Sprintf("reconciler %d: %d object(s) still in the retry queue", rc.idx, rc.rounds[n-1].current)
		}
	}
	return true, ""
}

// final is the heal and settle phase: operations stop failing, writers have
// stopped, scheduler faults stop; the system must converge within a bound of
// virtual time (C14), and the pacing history is evaluated (C16).
func (w *world) final() {
	s := w.S
	s.Calm()
	w.healed = true
	s.Spawn("final", func(t *simcore.Task) {
		if !w.initMarked {
			w.markInit(t)
		}
		nObjs := len(w.cur) + len(w.deleted) + 1
		// every object may need a round for its pending change and one for its retry
		rounds := 3*((nObjs+w.roundSize-1)/w.roundSize) + 5
		bound := w.maxBackoff + time.Duration(rounds)*(w.roundEvery+time.Millisecond)*time.Duration(w.nRecs) + w.longestDelay + time.Second
		if w.refreshEvery > 0 {
			bound += w.refreshEvery
		}
		if w.prop == "C16" {
			// the pacing history so far is judged on its own, whether or not the system converges
			w.checkPacing()
			if s.Failed() {
				return
			}
		}
		start := s.Now()
		ok := t.WaitUntil("converge", bound, func() bool { c, _ := w.converged(); return c })
		if s.Failed() {
			return
		}
		if !ok {
			_, why := w.converged()
			if w.prop == "C15" && w.stuckID != 0 && w.overtaken[w.stuckID] {
				// C15's own clause: an object changed or deleted while an operation ran is reconciled again
				w.violate("C15", "not-reconciled-again", "object %d was changed or deleted while an Update of it ran, and %v after operations stopped failing and the table stopped changing its latest state has still not been reconciled: %s", w.stuckID, s.Now()-start, why)
				return
			}
			w.violate("C14", "no-convergence", "%v of virtual time after operations stopped failing and the table stopped changing (bound: max backoff %v + %d rounds of %v + longest delay %v + 1s) the target does not equal the table: %s",
				s.Now()-start, w.maxBackoff, rounds, w.roundEvery, w.longestDelay, why)
			return
		}
		w.probes["converged"]++
		w.S.Logf("converged after %v", s.Now()-start)
		// removed objects: the last operation was a successful Delete, or the object never reached the target
		for _, rc := range w.recs {
			ids := make([]uint64, 0, len(w.deleted))
			for id := range w.deleted {
				ids = append(ids, id)
			}
			sort.Slice(ids, func(i, j int) bool { return ids[i] < ids[j] })
			for _, id := range ids {
				if _, still := w.cur[id]; still {
					continue
				}
				var lastOK *attempt
				for _, a := range rc.attempts {
					if a.id == id && a.done && a.ok {
						lastOK = a
					}
				}
				if lastOK != nil && !lastOK.del && rc.prunes == 0 {
					w.violate("C14", "delete-forgotten", "reconciler %d: object %d was removed from the table but its last successful operation is Update(val=%d), not Delete", rc.idx, id, lastOK.val)
					return
				}
			}
		}
		w.checkPacing()
	})
	s.Run()
}

// checkPacing evaluates the retry timing inequalities over the recorded attempts (C16).
func (w *world) checkPacing() {
	if w.nRecs > 1 {
		// with several reconcilers an object is also re-processed because another reconciler's
		// status write changed it: such an attempt is not a retry and is not paced
		return
	}
	period := w.roundEvery + time.Millisecond
	for _, rc := range w.recs {
		byID := map[uint64][]*attempt{}
		for _, a := range rc.attempts {
			if a.done {
				byID[a.id] = append(byID[a.id], a)
			}
		}
		ids := make([]uint64, 0, len(byID))
		for id := range byID {
			ids = append(ids, id)
		}
		sort.Slice(ids, func(i, j int) bool { return ids[i] < ids[j] })
		for _, id := range ids {
			as := byID[id]
			var waits []time.Duration
			var firstWait time.Duration
			for i := 0; i+1 < len(as); i++ {
				a, b := as[i], as[i+1]
				if a.ok || !b.retry || a.ver != b.ver || a.del != b.del {
					if len(waits) > 0 {
						w.probes["backoff-run-ended"]++
					}
					waits = nil
					continue
				}
				wait := b.start - a.end
				w.probes["retry-measured"]++
				// (1) never sooner than the minimum backoff after the failure
				if wait < w.minBackoff {
					w.violate("C16", "retry-too-soon", "reconciler %d retried object %d (ver %d) %v after its failure at %v; the configured minimum backoff is %v", rc.idx, id, a.ver, wait, a.end, w.minBackoff)
					return
				}
				if !w.cleanPacing {
					continue
				}
				// clean measurement conditions: one object, no injected delay, nothing else in flight
				// (2) capped: an otherwise idle reconciler retries within the maximum plus one round
				if wait > w.maxBackoff+2*period {
					w.violate("C16", "retry-too-late", "reconciler %d retried object %d (ver %d) %v after its failure; the configured maximum backoff is %v (+ one round of %v)", rc.idx, id, a.ver, wait, w.maxBackoff, period)
					return
				}
				// (3) waits do not shrink over consecutive failures
				if len(waits) > 0 && wait < waits[len(waits)-1]-2*period {
					w.violate("C16", "backoff-shrinks", "reconciler %d: consecutive failures of object %d (ver %d) were retried after %v and then after only %v", rc.idx, id, a.ver, waits[len(waits)-1], wait)
					return
				}
				// (4) the backoff starts over after a change or a success
				if len(waits) == 0 {
					if firstWait == 0 {
						firstWait = wait
					} else if wait > firstWait+2*period {
						w.violate("C16", "backoff-not-reset", "reconciler %d: the first retry of object %d after it changed or succeeded came after %v; the first retry earlier in the run came after %v", rc.idx, id, wait, firstWait)
						return
					} else {
						w.probes["backoff-restart-measured"]++
					}
				}
				waits = append(waits, wait)
			}
		}
	}
}

// waiter calls WaitUntilReconciled with arbitrary revisions and deadlines (C16).
func (w *world) waiter(t *simcore.Task) {
	c := w.c
	n := 1 + c.Choose(4)
	for i := 0; i < n; i++ {
		t.Sleep("waiter-think", time.Duration(1+c.Choose(400))*time.Millisecond)
		if w.S.Failed() || w.table == nil {
			return
		}
		rc := w.recs[c.Choose(len(w.recs))]
		cur := w.table.Revision(w.db.ReadTxn())
		var rev uint64
		switch c.Choose(3) {
		case 0:
			rev = cur
		case 1:
			rev = uint64(c.Choose(int(cur) + 1))
		case 2:
			rev = cur + uint64(1+c.Choose(3)) // future
		}
		timeout := time.Duration(1+c.Choose(2000)) * time.Millisecond
		ctx, cancel := context.WithTimeout(context.Background(), timeout)
		invokedAt := w.S.Now()
		roundsBefore := len(rc.rounds)
		// keys whose latest user change is at or below rev, as of the call
		type need struct {
			id  uint64
			ver int
			rev uint64
			at  time.Duration
			del bool
		}
		var needs []need
		for id := range w.history {
			if lu, ok := w.latestUser(id); ok && lu.rev <= rev {
				needs = append(needs, need{id: id, ver: lu.ver, rev: lu.rev, at: lu.at, del: lu.ver < 0})
			}
		}
		sort.Slice(needs, func(a, b int) bool { return needs[a].id < needs[b].id })
		w.S.Logf("WaitUntilReconciled(r%d) invoked (timeout %v)", rc.idx, timeout)
		w.S.Note("requested revision %d, table revision %d", rev, cur)
		got, lw, err := rc.rec.WaitUntilReconciled(ctx, rev)
		ctxErr := ctx.Err()
		cancel()
		t.Step("wur-returned")
		if w.S.Failed() {
			return
		}
		w.S.Logf("WaitUntilReconciled returned err=%v", err)
		w.S.Note("revision %d lowWatermark %d after %v", got, lw, w.S.Now()-invokedAt)
		w.progress++
		if err != nil {
			if ctxErr == nil || err != ctxErr {
				w.violate("C16", "wur-error", "WaitUntilReconciled returned error %v but the context's error is %v", err, ctxErr)
				return
			}
			if got >= rev {
				w.violate("C16", "wur-error", "WaitUntilReconciled returned the context's error although revision %d >= requested %d had been reached", got, rev)
				return
			}
			w.probes["wur-context-ended"]++
			continue
		}
		w.probes["wur-returned-ok"]++
		if got < rev {
			w.violate("C16", "wur-early", "WaitUntilReconciled(%d) returned without error with revision %d", rev, got)
			return
		}
		// every change up to rev has been attempted at least once
		for _, nd := range needs {
			// still the key's latest?
			if lu, ok := w.latestUser(nd.id); !ok || lu.rev != nd.rev {
				continue
			}
			if nd.del {
				// a deletion of an object the reconciler never saw needs no operation
				seen := false
				for _, a := range rc.attempts {
					if a.id == nd.id && a.start < nd.at {
						seen = true
					}
				}
				if !seen {
					continue
				}
			}
			attempted := false
			for _, a := range rc.attempts {
				if a.id == nd.id && a.done && a.start >= nd.at && (a.ver == nd.ver || (nd.del && a.del)) {
					attempted = true
				}
			}
			if !attempted {
				suffix := ""
				if w.nRecs > 1 {
					suffix = fmt.Sprintf(" [%d reconcilers on the table]", w.nRecs)
				}
				w.violate("C16", "wur-unattempted", "WaitUntilReconciled(r%d, %d) returned %d without error, but the change of object %d (ver %d, committed at %v, revision <= %d) has not been attempted by the reconciler%s",
					rc.idx, rev, got, nd.id, nd.ver, nd.at, rev, suffix)
				return
			}
		}
		if w.nRecs > 1 {
			continue // which revision is "the failed change" is ambiguous when other reconcilers' status writes move the object
		}
		// retry low watermark: zero exactly when no failed object awaits retry
		// The values are read once, at some instant of the call: candidates are the state published by the
		// last round that ended before the call - or by the one before it, because a round's end is recorded
		// here slightly before the reconciler publishes its result - the initial state (nothing failed) when
		// at most one round had ended, and every round end until the return.
		from := roundsBefore - 2
		if from < 0 {
			from = 0
		}
		okLW := (len(rc.rounds) == 0 || roundsBefore <= 1) && lw == 0
		for _, re := range rc.rounds[minInt(from, len(rc.rounds)):] {
			if lw == 0 {
				if len(re.strict) == 0 {
					okLW = true
				}
				continue
			}
			inLoose := false
			for _, r := range re.loose {
				if r == lw {
					inLoose = true
				}
			}
			minStrict := uint64(0)
			for _, r := range re.strict {
				if minStrict == 0 || r < minStrict {
					minStrict = r
				}
			}
			if inLoose && (minStrict == 0 || lw <= minStrict) {
				okLW = true
			}
		}
		if !okLW && len(rc.rounds) > 0 {
			last := rc.rounds[len(rc.rounds)-1]
			w.violate("C16", "low-watermark", "WaitUntilReconciled(r%d) reported retry low watermark %d; at the round ends since the call the failed objects awaiting retry (key: revision of the failed change) were %v (last attempt failed: %v)",
				rc.idx, lw, last.strict, last.loose)
			return
		}
		w.probes["low-watermark-checked"]++
	}
}

// latestUser returns the user's latest change of the key (highest revision).
func (w *world) latestUser(id uint64) (tver, bool) {
	var best tver
	found := false
	for _, v := range w.history[id] {
		if v.byUser && (!found || v.rev > best.rev) {
			best = v
			found = true
		}
	}
	return best, found
}

func minInt(a, b int) int {
	if a < b {
		return a
	}
	return b
}

var _ = reconciler.StatusPending
