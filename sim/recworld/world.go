// Package recworld simulates the reconciler: real hive + statedb + reconciler(s)
// inside a synctest bubble under the seeded scheduler. The reconciliation
// target is a map behind reconciler.Operations, which is also the fault
// injection seam (failures, virtual delays, user writes landing while an
// operation is in flight).
package recworld

import (
	"context"
	"errors"
	"fmt"
	"io"
	"iter"
	"log/slog"
	"regexp"
	"runtime"
	"sort"
	"strings"
	"testing"
	"time"

	"github.com/cilium/hive"
	"github.com/cilium/hive/cell"
	"github.com/cilium/hive/job"
	"github.com/cilium/statedb"
	"github.com/cilium/statedb/index"
	"github.com/cilium/statedb/reconciler"
	"golang.org/x/time/rate"

	"verif/sim/simcore"
)

// RObj is the reconciled object. S[i] is the status of reconciler i.
type RObj struct {
	ID  uint64
	Val int
	Ver int // user version counter (part of the desired state)
	S   [2]reconciler.Status
	SS  reconciler.StatusSet // used instead of S when the run uses status sets
}

func (o *RObj) TableHeader() []string { return []string{"ID", "Val"} }
func (o *RObj) TableRow() []string    { return []string{fmt.Sprint(o.ID), fmt.Sprint(o.Val)} }
func (o *RObj) clone() *RObj          { c := *o; return &c }

var idIndex = statedb.Index[*RObj, uint64]{
	Name:       "id",
	FromObject: func(o *RObj) index.KeySet { return index.NewKeySet(index.Uint64(o.ID)) },
	FromKey:    index.Uint64,
	Unique:     true,
}

// attempt is one Update or Delete call observed at the operations seam.
type attempt struct {
	rec        int
	id         uint64
	val, ver   int
	rev        uint64
	del        bool
	kind       string
	statusID   uint64
	start, end time.Duration
	ok         bool
	done       bool
	retry      bool
	origRev    uint64 // revision of the change being reconciled: the revision passed to the first attempt
	delayed    bool   // the harness injected a delay or yields into the operation
	seq        uint64
}

// tver is one version of an object as published in the table.
type tver struct {
	val, ver int
	rev      uint64
	kinds    [2]string
	ids      [2]uint64
	byUser   bool
	at       time.Duration
}

type roundEnd struct {
	at      time.Duration
	strict  map[uint64]uint64 // keys awaiting retry for sure -> revision of the change being retried
	loose   map[uint64]uint64 // keys whose last attempt failed -> revision of the change being retried
	current int               // ReconciliationErrors current
}

type recCtx struct {
	idx         int
	rec         reconciler.Reconciler[*RObj]
	target      map[uint64]int
	attempts    []*attempt
	last        map[uint64]*attempt // last completed attempt per key
	errored     map[uint64]bool     // the table showed status Error written for the last failed attempt
	lastDeleted map[uint64]*attempt // the last successful Delete per object
	rounds      []roundEnd
	prunes      int
}

type world struct {
	t    *testing.T
	prop string
	c    *simcore.Choices
	S    *simcore.Sim

	db    *statedb.DB
	table statedb.RWTable[*RObj]
	hive  *hive.Hive
	log   *slog.Logger
	recs  []*recCtx

	// knobs
	nRecs         int
	batch         bool
	roundSize     int
	roundEvery    time.Duration
	minBackoff    time.Duration
	maxBackoff    time.Duration
	pruneInterval time.Duration
	refreshEvery  time.Duration
	failPct       int
	delayPct      int
	maxDelay      time.Duration
	yieldPct      int
	healed        bool
	cleanPacing   bool
	statusSet     bool
	initDone      func(statedb.WriteTxn)
	initMarked    bool
	longestDelay  time.Duration
	nIDs          int

	// auditor state
	cur       map[uint64]tver
	lastRev   uint64
	history   map[uint64][]tver
	deleted   map[uint64]time.Duration
	overtaken map[uint64]bool // objects that were changed or deleted while an Update of theirs ran
	stuckID   uint64          // object named by the last failed convergence test
	userVer   int
	userBusy  bool

	probes   map[string]int
	faults   map[string]int
	progress int
	desc     string
	states   map[uint64]struct{}
}

func kindOf(s reconciler.Status) string { return s.Kind.String() }

// statusOf returns reconciler i's status of the object.
func (w *world) statusOf(o *RObj, i int) reconciler.Status {
	if w.statusSet {
		return o.SS.Get(fmt.Sprintf("r%d", i))
	}
	return o.S[i]
}

var hexRe = regexp.MustCompile(`0x[0-9a-f]+\??|\+0x[0-9a-f]+`)

func stackOf(s string) string {
	var keep []string
	for _, l := range strings.Split(s, "\n") {
		if strings.Contains(l, "statedb") || strings.Contains(l, "panic") {
			keep = append(keep, strings.TrimSpace(l))
		}
		if len(keep) > 10 {
			break
		}
	}
	return hexRe.ReplaceAllString(strings.Join(keep, " | "), "0x?")
}

// Run executes one run of recworld.
func Run(t *testing.T, prop, tier string, c *simcore.Choices, full bool) *simcore.RunResult {
	res := &simcore.RunResult{}
	w := &world{t: t, prop: prop, c: c, probes: map[string]int{}, faults: map[string]int{}, states: map[uint64]struct{}{},
		cur: map[uint64]tver{}, history: map[uint64][]tver{}, deleted: map[uint64]time.Duration{}, overtaken: map[uint64]bool{}}
	_, perr := simcore.InBubble(t, func() { w.run(full, tier) })
	if perr != nil {
		res.Harness = fmt.Sprint(perr)
	}
	if w.S != nil {
		res.Stats = w.S.Stats
		res.Log = w.S.Log
		res.LogHash = fmt.Sprintf("%016x", w.S.LogHash())
		if v := w.S.Violation(); v != nil {
			switch {
			case v.Property == "HARNESS":
				res.Harness = v.Oracle + ": " + v.Detail
			case v.Property != prop:
				res.Foreign = append(res.Foreign, *v)
			default:
				res.Violation = v
			}
		}
	}
	res.Choices = c.Trace
	res.Probes = w.probes
	res.Faults = w.faults
	res.Progress = w.progress
	res.Desc = w.desc
	for h := range w.states {
		res.StateHash = append(res.StateHash, h)
	}
	sort.Slice(res.StateHash, func(i, j int) bool { return res.StateHash[i] < res.StateHash[j] })
	return res
}

func (w *world) violate(prop, oracle, format string, args ...any) {
	if w.prop == "C14" && prop == "C15" {
		// C14's oracles compare the real target with the real table and do not depend on the bookkeeping
		// of the status oracles: a C14 run goes on, so that a status written for the wrong version is
		// still judged by what it does to convergence
		if w.probes["status-oracle-fired-run-continued"] == 0 {
			w.S.Logf("(C15/%s fired; the run continues under the C14 oracles)", oracle)
		}
		w.probes["status-oracle-fired-run-continued"]++
		return
	}
	w.S.Violate(prop, oracle, format, args...)
}

func (w *world) run(full bool, tier string) {
	c := w.c
	cfg := simcore.Config{KeepFullLog: full, InBubble: true, StepLimit: 6000, DeadlockProp: "C14"}
	if tier == "thorough" {
		cfg.StepLimit = 15000
	}
	cfg.Strategy = c.Weighted([]int{5, 2, 2})
	cfg.StickNum, cfg.StickDen = 1+c.Choose(8), 10
	cfg.PCTDepth = 1 + c.Choose(3)
	faultsOn := c.Choose(5) != 0
	w.cleanPacing = w.prop == "C16" && c.Choose(2) == 0
	if faultsOn && !w.cleanPacing && c.Choose(3) == 0 {
		cfg.StallNum, cfg.StallDen = 1, 30+c.Choose(60)
		cfg.StallMax = time.Duration(1+c.Choose(500)) * time.Millisecond
	}
	if !w.cleanPacing && c.Choose(3) == 0 {
		cfg.IdleNum, cfg.IdleDen = 1, 8+c.Choose(30)
		cfg.IdleMax = time.Duration(1+c.Choose(400)) * time.Millisecond
	}
	cfg.IdleBudget = 3 * time.Hour

	// knobs
	w.nRecs = 1
	if (w.prop == "C15" && c.Choose(2) == 0) || (w.prop == "C16" && !w.cleanPacing && c.Choose(4) == 0) || (w.prop == "C14" && c.Choose(3) == 0) {
		w.nRecs = 2
	}
	w.batch = c.Choose(3) == 0
	w.statusSet = c.Choose(3) == 0
	w.roundSize = []int{1, 2, 3, 10, 1000}[c.Choose(5)]
	w.roundEvery = []time.Duration{time.Millisecond, 10 * time.Millisecond, 100 * time.Millisecond}[c.Choose(3)]
	w.minBackoff = []time.Duration{time.Millisecond, 10 * time.Millisecond, 100 * time.Millisecond, time.Second}[c.Choose(4)]
	w.maxBackoff = w.minBackoff * time.Duration([]int{1, 2, 4, 8, 64}[c.Choose(5)])
	if c.Choose(3) == 0 {
		w.pruneInterval = []time.Duration{50 * time.Millisecond, time.Second}[c.Choose(2)]
	}
	if c.Choose(6) == 0 && !w.cleanPacing {
		w.refreshEvery = []time.Duration{200 * time.Millisecond, 2 * time.Second}[c.Choose(2)]
	}
	if w.refreshEvery > 0 {
		// refreshing is load the reconciler puts on itself: keep it well below the round capacity,
		// otherwise the system is never quiescent and retries legitimately wait behind refreshes
		if w.roundSize < 10 {
			w.roundSize = 10
		}
		if w.roundEvery > 10*time.Millisecond {
			w.roundEvery = 10 * time.Millisecond
		}
	}
	w.nIDs = 1 + c.Choose(6)
	if faultsOn {
		w.failPct = []int{10, 30, 60}[c.Choose(3)]
		w.delayPct = []int{0, 10, 30}[c.Choose(3)]
		w.yieldPct = []int{10, 40, 80}[c.Choose(3)]
		w.maxDelay = []time.Duration{time.Millisecond, 50 * time.Millisecond, 2 * time.Second}[c.Choose(3)]
	}
	if w.cleanPacing {
		w.nIDs, w.nRecs, w.batch, w.statusSet = 1, 1, false, false
		w.roundSize = 1000
		w.roundEvery = time.Millisecond
		w.delayPct, w.yieldPct = 0, 0
		w.pruneInterval = 0
		w.failPct = 100
	}
	w.desc = fmt.Sprintf("prop=%s recs=%d batch=%v round=%d/%v backoff=%v..%v prune=%v refresh=%v ids=%d fail=%d%% delay=%d%%/%v yield=%d%% clean=%v strategy=%d statusset=%v",
		w.prop, w.nRecs, w.batch, w.roundSize, w.roundEvery, w.minBackoff, w.maxBackoff, w.pruneInterval, w.refreshEvery, w.nIDs, w.failPct, w.delayPct, w.maxDelay, w.yieldPct, w.cleanPacing, cfg.Strategy, w.statusSet)

	s := simcore.NewSim(c, cfg)
	w.S = s
	s.OnStep = w.onStep
	statedb.VerifInstallHooks(s.HookYield, s.HookAcquire, s.HookRelease)
	defer statedb.VerifInstallHooks(nil, nil, nil)
	w.log = slog.New(slog.NewTextHandler(io.Discard, &slog.HandlerOptions{Level: slog.LevelError + 4}))

	s.Spawn("setup", func(t *simcore.Task) { w.setup(t) })
	s.Run()
	if s.Violation() == nil && !s.Stats.Truncated {
		w.final()
	}
	done := make(chan struct{})
	go func() {
		defer close(done)
		defer func() { recover() }()
		if w.hive != nil {
			w.hive.Stop(w.log, context.Background())
		}
	}()
	s.Drain(func() bool {
		select {
		case <-done:
			return true
		default:
			return false
		}
	})
}

func (w *world) guard(prop, what string, fn func()) (ok bool) {
	defer func() {
		if r := recover(); r != nil {
			if simcore.IsAbort(r) {
				panic(r)
			}
			buf := make([]byte, 4096)
			n := runtime.Stack(buf, false)
			w.violate(prop, "panic", "%s panicked: %v\n%s", what, r, stackOf(string(buf[:n])))
		}
	}()
	fn()
	return true
}

func (w *world) setup(t *simcore.Task) {
	c := w.c
	var regErr error
	opts := func(i int) []reconciler.Option {
		o := []reconciler.Option{
			reconciler.WithName(fmt.Sprintf("r%d", i)),
			reconciler.WithMetrics(&recMetrics{w: w, ri: i}),
			reconciler.WithRetry(w.minBackoff, w.maxBackoff),
			reconciler.WithRoundLimits(w.roundSize, rate.NewLimiter(rate.Every(w.roundEvery), 1)),
		}
		if w.pruneInterval > 0 {
			o = append(o, reconciler.WithPruning(w.pruneInterval))
		} else {
			o = append(o, reconciler.WithoutPruning())
		}
		if w.refreshEvery > 0 {
			o = append(o, reconciler.WithRefreshing(w.refreshEvery, rate.NewLimiter(rate.Every(time.Millisecond), 1)))
		}
		return o
	}
	w.hive = hive.New(
		statedb.Cell,
		job.Cell,
		cell.Provide(
			cell.NewSimpleHealth,
			func(r job.Registry, h cell.Health) job.Group { return r.NewGroup(h) },
		),
		cell.Invoke(func(db *statedb.DB) (err error) {
			w.db = db
			db.VerifSetGCRateLimitInterval(10 * time.Millisecond)
			w.table, err = statedb.NewTable(db, "objects", idIndex)
			if err != nil {
				return err
			}
			// initializers are registered before the application starts (this also keeps the
			// reconciler's first select from having several ready cases)
			wtxn := db.WriteTxn(w.table)
			w.initDone = w.table.RegisterInitializer(wtxn, "harness")
			wtxn.Commit()
			return nil
		}),
		cell.Invoke(func(params reconciler.Params) {
			for i := 0; i < w.nRecs; i++ {
				i := i
				rc := &recCtx{idx: i, target: map[uint64]int{}, last: map[uint64]*attempt{}, errored: map[uint64]bool{}, lastDeleted: map[uint64]*attempt{}}
				ops := &opsSeam{w: w, rc: rc}
				var bops reconciler.BatchOperations[*RObj]
				if w.batch {
					bops = ops
				}
				rec, err := reconciler.Register[*RObj](params, w.table,
					(*RObj).clone,
					func(o *RObj, s reconciler.Status) *RObj {
						if w.statusSet {
							o.SS = o.SS.Set(fmt.Sprintf("r%d", i), s)
						} else {
							o.S[i] = s
						}
						return o
					},
					func(o *RObj) reconciler.Status { return w.statusOf(o, i) },
					ops, bops, opts(i)...)
				if err != nil {
					regErr = err
					return
				}
				rc.rec = rec
				w.recs = append(w.recs, rc)
			}
		}),
	)
	var err error
	if !w.guard("C14", "hive start", func() { err = w.hive.Start(w.log, context.Background()) }) {
		return
	}
	if err != nil || regErr != nil {
		w.violate("HARNESS", "setup", "hive start: %v register: %v", err, regErr)
		return
	}
	// the initializer gates pruning; it is marked done at a seeded point (or only in the final phase)
	if c.Choose(3) == 0 {
		w.markInit(t)
	}
	nw := 1 + c.Choose(3)
	if w.cleanPacing {
		nw = 1
	}
	for i := 0; i < nw; i++ {
		w.S.Spawn(fmt.Sprintf("writer%d", i), w.writer)
	}
	if w.prop == "C16" || (w.prop == "C14" && w.nRecs == 1 && c.Choose(3) == 0) {
		w.S.Spawn("waiter", w.waiter)
	}
	if w.pruneInterval == 0 && c.Choose(4) == 0 {
		w.S.Spawn("pruner", func(t *simcore.Task) {
			for i := 0; i < 3; i++ {
				t.Sleep("prune-wait", time.Duration(1+c.Choose(300))*time.Millisecond)
				if w.S.Failed() {
					return
				}
				w.recs[c.Choose(len(w.recs))].rec.Prune()
				w.S.Logf("external Prune() requested")
			}
		})
	}
}

// writer performs user writes: inserts, updates (always with fresh pending statuses) and deletes.
func (w *world) writer(t *simcore.Task) {
	c := w.c
	n := 2 + c.Choose(8)
	if w.cleanPacing {
		n = 1 + c.Choose(3)
	}
	for i := 0; i < n; i++ {
		if w.cleanPacing && i > 0 {
			// let several failures accumulate, then change the object
			t.Sleep("between-changes", w.maxBackoff*time.Duration(2+c.Choose(4))+time.Duration(c.Choose(1000))*time.Millisecond)
		} else if c.Choose(3) == 0 {
			t.Sleep("think", time.Duration(1+c.Choose(300))*time.Millisecond)
		} else {
			t.Step("write")
		}
		if w.S.Failed() {
			return
		}
		w.userWrite(t, nil)
		if w.S.Failed() {
			return
		}
		if !w.initMarked && c.Choose(3) == 0 {
			w.markInit(t)
		}
	}
}

func (w *world) markInit(t *simcore.Task) {
	if w.initMarked || w.initDone == nil {
		return
	}
	w.initMarked = true
	wtxn := w.db.WriteTxn(w.table)
	w.initDone(wtxn)
	w.userBusy = true
	wtxn.Commit()
	w.userBusy = false
	w.S.Logf("table initializer marked done")
}

// userWrite performs one user transaction; if only != nil the write targets that id.
func (w *world) userWrite(t *simcore.Task, only *uint64) {
	c := w.c
	var wtxn statedb.WriteTxn
	if !w.guard("C14", "WriteTxn", func() { wtxn = w.db.WriteTxn(w.table) }) {
		return
	}
	defer wtxn.Abort()
	nOps := 1 + c.Choose(2)
	inserted := map[uint64]bool{}
	gone := map[uint64]bool{}
	for j := 0; j < nOps; j++ {
		id := uint64(1 + c.Choose(w.nIDs))
		if only != nil {
			id = *only
		}
		existing, _, exists := w.table.Get(wtxn, idIndex.Query(id))
		kind := c.Weighted([]int{6, 3, 1})
		if w.cleanPacing {
			kind = 0
			if exists && c.Choose(3) == 0 {
				kind = 1 // the change that follows a run of failures may be a deletion: its retries are paced anew
			}
		}
		switch {
		case kind == 1 && exists:
			w.table.Delete(wtxn, &RObj{ID: id})
			gone[id] = true
			w.S.Logf("%s deletes object %d", t.Name, id)
		case kind == 2 && exists:
			// delete and re-insert in one transaction
			w.table.Delete(wtxn, &RObj{ID: id})
			fallthrough
		default:
			w.userVer++
			o := &RObj{ID: id, Val: 1000*w.userVer + c.Choose(10), Ver: w.userVer}
			for i := 0; i < w.nRecs; i++ {
				o.S[i] = reconciler.StatusPending()
			}
			if w.statusSet {
				// as applications do: a changed object re-uses its status set, marked pending again
				if exists && kind != 2 {
					o.SS = existing.SS.Pending()
				} else {
					o.SS = reconciler.NewStatusSet()
				}
			}
			w.table.Insert(wtxn, o)
			inserted[id] = true
			delete(gone, id)
			w.S.Logf("%s writes object %d val=%d ver=%d", t.Name, id, o.Val, o.Ver)
		}
	}
	w.userBusy = true
	var rtxn statedb.ReadTxn
	invokedAt := w.S.Now()
	w.guard("C14", "Commit", func() { rtxn = wtxn.Commit() })
	w.userBusy = false
	w.progress++
	// an object created and deleted within this one transaction is invisible to the auditor's
	// table diff, but it supersedes an earlier deletion of the same key (a new deletion revision)
	if rtxn != nil {
		for id := range gone {
			if inserted[id] {
				w.history[id] = append(w.history[id], tver{rev: w.table.Revision(rtxn), ver: -2 - w.userVer, byUser: true, at: invokedAt})
			}
		}
	}
}

// onStep is the auditor: it observes every published table version and
// attributes it to the user or to the reconciler side (C15).
func (w *world) onStep(ran *simcore.Task) {
	if w.db == nil || w.table == nil || w.S.Failed() {
		return
	}
	rtxn := w.db.ReadTxn()
	defer func() {
		if r := recover(); r != nil {
			// table not registered yet
		}
	}()
	rev := w.table.Revision(rtxn)
	if rev == w.lastRev {
		return
	}
	w.lastRev = rev
	now := w.S.Now()
	next := map[uint64]tver{}
	for o, r := range w.table.All(rtxn) {
		v := tver{val: o.Val, ver: o.Ver, rev: r, at: now}
		for i := 0; i < 2; i++ {
			st := w.statusOf(o, i)
			v.kinds[i] = kindOf(st)
			v.ids[i] = st.ID
		}
		next[o.ID] = v
	}
	byUser := ran != nil && !ran.Adopted
	who := "nobody"
	if ran != nil {
		who = ran.Name
	}
	ids := map[uint64]bool{}
	for id := range next {
		ids[id] = true
	}
	for id := range w.cur {
		ids[id] = true
	}
	var sorted []uint64
	for id := range ids {
		sorted = append(sorted, id)
	}
	sort.Slice(sorted, func(i, j int) bool { return sorted[i] < sorted[j] })
	for _, id := range sorted {
		old, had := w.cur[id]
		nv, has := next[id]
		if had && has && old.rev == nv.rev {
			continue
		}
		if byUser {
			if has {
				nv.byUser = true
				next[id] = nv
				w.history[id] = append(w.history[id], nv)
				delete(w.deleted, id)
			} else {
				w.deleted[id] = now
				w.history[id] = append(w.history[id], tver{rev: rev, ver: -1, byUser: true, at: now})
			}
			continue
		}
		// a commit by the reconciler side (reconcile loop, refresh loop): status only
		switch {
		case !had && has:
			w.violate("C15", "reconciler-created-object", "a commit by %s created (or re-created) object %d val=%d which the user had deleted or never written", who, id, nv.val)
			return
		case had && !has:
			w.violate("C15", "reconciler-deleted-object", "a commit by %s removed object %d from the table", who, id)
			return
		}
		if old.val != nv.val || old.ver != nv.ver {
			w.violate("C15", "reconciler-changed-data", "a commit by %s changed object %d from val=%d ver=%d to val=%d ver=%d: a newer user version was overwritten with a stale copy", who, id, old.val, old.ver, nv.val, nv.ver)
			return
		}
		changed := 0
		for i := 0; i < 2; i++ {
			if old.kinds[i] != nv.kinds[i] || old.ids[i] != nv.ids[i] {
				changed++
				if !w.statusWriteOK(i, id, old, nv, who) {
					return
				}
			}
		}
		w.history[id] = append(w.history[id], nv)
		w.probes["status-commit-observed"]++
	}
	w.cur = next
	h := uint64(1469598103934665603)
	for _, id := range sorted {
		if v, ok := next[id]; ok {
			h ^= id<<32 | uint64(v.ver)<<8
			h *= 1099511628211
			for _, k := range v.kinds {
				for _, b := range []byte(k) {
					h ^= uint64(b)
					h *= 1099511628211
				}
			}
		}
	}
	w.states[h] = struct{}{}
}

// statusWriteOK checks a status written by reconciler ri for object id: Done/Error only for
// the version that was actually passed to an Update which ended accordingly.
func (w *world) statusWriteOK(ri int, id uint64, old, nv tver, who string) bool {
	if ri >= len(w.recs) {
		w.violate("C15", "foreign-status", "status slot %d of object %d changed but no such reconciler exists", ri, id)
		return false
	}
	rc := w.recs[ri]
	switch nv.kinds[ri] {
	case "Refreshing":
		if w.refreshEvery == 0 || old.kinds[ri] != "Done" {
			w.violate("C15", "bad-refresh", "object %d was marked Refreshing from status %s (refresh enabled: %v)", id, old.kinds[ri], w.refreshEvery > 0)
			return false
		}
		w.probes["refresh-marked"]++
		return true
	case "Done", "Error":
		wantOK := nv.kinds[ri] == "Done"
		// find a completed Update of exactly the preceding version
		for i := len(rc.attempts) - 1; i >= 0; i-- {
			a := rc.attempts[i]
			if a.id != id || a.del || !a.done {
				continue
			}
			if a.ver == old.ver && a.val == old.val && a.ok == wantOK {
				if a.rev == old.rev {
					if !wantOK {
						rc.errored[id] = true
					}
					return true
				}
				// the result may also be committed when, since the revision passed to the operation,
				// only other reconcilers' statuses changed: same data, own status slot untouched
				var at *tver
				onlyForeign := true
				for k := range w.history[id] {
					v := &w.history[id][k]
					if v.rev == a.rev {
						at = v
						continue
					}
					if at != nil && v.rev > a.rev && v.rev <= old.rev {
						if v.val != at.val || v.ver != at.ver || v.kinds[ri] != at.kinds[ri] || v.ids[ri] != at.ids[ri] {
							onlyForeign = false
						}
					}
				}
				if at != nil && onlyForeign && (at.kinds[ri] == "Pending" || at.kinds[ri] == "Refreshing" || at.kinds[ri] == "Error") {
					w.probes["status-commit-after-foreign-status-change"]++
					if !wantOK {
						rc.errored[id] = true
					}
					return true
				}
			}
		}
		w.violate("C15", "status-for-wrong-version", "reconciler %d (%s) marked object %d %s at table revision %d, but the version it replaced (val=%d ver=%d revision=%d, status %s) was never passed to an Update that ended %s",
			ri, who, id, nv.kinds[ri], nv.rev, old.val, old.ver, old.rev, old.kinds[ri], map[bool]string{true: "successfully", false: "with an error"}[wantOK])
		return false
	}
	w.violate("C15", "bad-status", "reconciler side wrote status %q on object %d", nv.kinds[ri], id)
	return false
}

var errInjected = errors.New("injected failure")

// opsSeam implements reconciler.Operations and BatchOperations for one reconciler.
type opsSeam struct {
	w  *world
	rc *recCtx
}

func (o *opsSeam) begin(obj *RObj, rev uint64, del bool) *attempt {
	w := o.w
	w.S.HookYield("op.begin")
	st := w.statusOf(obj, o.rc.idx)
	a := &attempt{rec: o.rc.idx, id: obj.ID, val: obj.Val, ver: obj.Ver, rev: rev, del: del, kind: kindOf(st), statusID: st.ID, start: w.S.Now(), seq: w.S.Seq()}
	a.origRev = rev
	if last := o.rc.last[obj.ID]; last != nil && !last.ok && last.ver == obj.Ver && last.del == del {
		a.retry = true
		a.origRev = last.origRev
	}
	o.rc.attempts = append(o.rc.attempts, a)
	if d := o.rc.lastDeleted[obj.ID]; !del && d != nil && rev < d.rev {
		// the reconciler already carried out the deletion of a later revision: this re-creates the object
		w.violate("C15", "recreates-deleted", "reconciler %d called Update for object %d (val=%d, revision %d) after it had deleted the object at revision %d: a deleted object is re-created from a version older than its deletion", o.rc.idx, obj.ID, obj.Val, rev, d.rev)
	}
	if !del && !a.retry && a.kind != "Pending" && a.kind != "Refreshing" {
		w.violate("C15", "update-of-settled-object", "reconciler %d called Update for object %d (val=%d) whose status is %s and which is not being retried", o.rc.idx, obj.ID, obj.Val, a.kind)
	}
	return a
}

// during lets user writes land while the operation is in flight and injects virtual delays.
func (o *opsSeam) during(a *attempt) {
	w := o.w
	c := w.c
	if w.healed {
		return
	}
	if w.yieldPct > 0 && c.Choose(100) < w.yieldPct {
		n := 1 + c.Choose(4)
		for i := 0; i < n; i++ {
			w.S.HookYield("op.mid")
		}
		a.delayed = true
		w.probes["yield-inside-operation"]++
	}
	if w.healed {
		// faults have stopped while this operation was yielding: no delay is injected any more (the
		// convergence bound was computed from the delays injected until then)
		return
	}
	if w.delayPct > 0 && c.Choose(100) < w.delayPct {
		d := time.Duration(1+c.Choose(1000)) * w.maxDelay / 1000
		if d > w.longestDelay {
			w.longestDelay = d
		}
		w.faults["slow-operation"]++
		a.delayed = true
		time.Sleep(d)
		w.S.HookYield("op.woke")
	}
}

func (o *opsSeam) finish(a *attempt) error {
	w := o.w
	fail := !w.healed && w.failPct > 0 && w.c.Choose(100) < w.failPct
	if w.cleanPacing && !w.healed {
		// fail a run of consecutive attempts, then let one succeed
		n := 0
		for i := len(o.rc.attempts) - 2; i >= 0 && !o.rc.attempts[i].ok && o.rc.attempts[i].ver == a.ver && o.rc.attempts[i].del == a.del; i-- {
			n++
		}
		fail = n < 3+w.c.Choose(4)
	}
	a.ok = !fail
	a.done = true
	a.end = w.S.Now()
	if cur, ok := w.cur[a.id]; !a.del && (!ok || cur.ver != a.ver) {
		// the object was changed or deleted while this Update ran
		w.overtaken[a.id] = true
	}
	o.rc.last[a.id] = a
	if fail {
		w.faults["operation-failed"]++
		w.S.Logf("r%d %s(%d val=%d) fails", a.rec, opName(a), a.id, a.val)
		w.S.Note("rev=%d", a.rev)
		delete(o.rc.errored, a.id)
		return errInjected
	}
	if a.del {
		delete(o.rc.target, a.id)
		o.rc.lastDeleted[a.id] = a
	} else {
		o.rc.target[a.id] = a.val
	}
	delete(o.rc.errored, a.id)
	w.S.Logf("r%d %s(%d val=%d) ok", a.rec, opName(a), a.id, a.val)
	w.S.Note("rev=%d", a.rev)
	return nil
}

func opName(a *attempt) string {
	if a.del {
		return "Delete"
	}
	return "Update"
}

func (o *opsSeam) Update(ctx context.Context, txn statedb.ReadTxn, rev statedb.Revision, obj *RObj) error {
	a := o.begin(obj, rev, false)
	o.during(a)
	return o.finish(a)
}

func (o *opsSeam) Delete(ctx context.Context, txn statedb.ReadTxn, rev statedb.Revision, obj *RObj) error {
	a := o.begin(obj, rev, true)
	o.during(a)
	return o.finish(a)
}

func (o *opsSeam) UpdateBatch(ctx context.Context, txn statedb.ReadTxn, batch []reconciler.BatchEntry[*RObj]) {
	for i := range batch {
		a := o.begin(batch[i].Object, batch[i].Revision, false)
		if i == 0 {
			o.during(a)
		}
		batch[i].Result = o.finish(a)
	}
	o.w.probes["batch-update"]++
}

func (o *opsSeam) DeleteBatch(ctx context.Context, txn statedb.ReadTxn, batch []reconciler.BatchEntry[*RObj]) {
	for i := range batch {
		a := o.begin(batch[i].Object, batch[i].Revision, true)
		if i == 0 {
			o.during(a)
		}
		batch[i].Result = o.finish(a)
	}
	o.w.probes["batch-delete"]++
}

func (o *opsSeam) Prune(ctx context.Context, txn statedb.ReadTxn, objects iter.Seq2[*RObj, statedb.Revision]) error {
	w := o.w
	w.S.HookYield("op.prune")
	o.rc.prunes++
	w.probes["prune-called"]++
	if ok, _ := w.table.Initialized(txn); !ok {
		w.violate("C15", "prune-before-initialized", "reconciler %d called Prune although the table is not initialized in the transaction it was given", o.rc.idx)
		return nil
	}
	got := map[uint64]int{}
	n := 0
	for obj := range objects {
		got[obj.ID] = obj.Val
		n++
	}
	want := map[uint64]int{}
	for obj := range w.table.All(txn) {
		want[obj.ID] = obj.Val
	}
	if n != len(want) || len(got) != len(want) {
		w.violate("C15", "prune-incomplete", "reconciler %d called Prune with %d objects, the table holds %d in that transaction", o.rc.idx, n, len(want))
		return nil
	}
	for id, v := range want {
		if gv, ok := got[id]; !ok || gv != v {
			w.violate("C15", "prune-incomplete", "Prune was not given object %d val=%d of the table", id, v)
			return nil
		}
	}
	// the target system removes what is not desired
	for id := range o.rc.target {
		if _, ok := want[id]; !ok {
			delete(o.rc.target, id)
		}
	}
	w.S.Logf("r%d Prune with %d objects", o.rc.idx, n)
	return nil
}

// recMetrics is the reconciler.Metrics seam; the end of a round is where the
// expected retry low-watermark is recorded.
type recMetrics struct {
	w  *world
	ri int
}

func (m *recMetrics) ReconciliationDuration(cell.FullModuleID, string, string, time.Duration) {}
func (m *recMetrics) PruneError(cell.FullModuleID, string, error)                             {}
func (m *recMetrics) PruneDuration(cell.FullModuleID, string, time.Duration)                  {}
func (m *recMetrics) ReconciliationErrors(_ cell.FullModuleID, _ string, newErrs, current int) {
	w := m.w
	w.S.HookYield("rec.roundEnd")
	if m.ri >= len(w.recs) {
		return
	}
	rc := w.recs[m.ri]
	re := roundEnd{at: w.S.Now(), strict: map[uint64]uint64{}, loose: map[uint64]uint64{}, current: current}
	for id, a := range rc.last {
		if a.ok {
			continue
		}
		re.loose[id] = a.origRev
		if a.del || rc.errored[id] {
			re.strict[id] = a.origRev
		}
	}
	rc.rounds = append(rc.rounds, re)
	if len(rc.rounds) > 400 {
		rc.rounds = rc.rounds[200:]
	}
}
