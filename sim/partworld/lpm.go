package partworld

import (
	"fmt"
	"sort"
	"strings"

	"github.com/cilium/statedb/index"
	"github.com/cilium/statedb/lpm"

	"verif/sim/simcore"
)

// pfx is a bit prefix over up to 4 bytes of data.
type pfx struct {
	bits uint32 // left aligned
	len  uint8
}

func (p pfx) masked() pfx {
	if p.len == 0 {
		return pfx{}
	}
	if p.len >= 32 {
		return pfx{p.bits, 32}
	}
	return pfx{p.bits &^ (uint32(0xffffffff) >> p.len), p.len}
}

func (p pfx) covers(q pfx) bool {
	return q.len >= p.len && pfx{q.bits, p.len}.masked() == p.masked()
}

func pfxLess(a, b pfx) bool {
	a, b = a.masked(), b.masked()
	if a.bits != b.bits {
		return a.bits < b.bits
	}
	return a.len < b.len
}

func (p pfx) String() string { return fmt.Sprintf("%08x/%d", p.masked().bits, p.len) }

func (p pfx) key(width int) index.Key {
	data := []byte{byte(p.bits >> 24), byte(p.bits >> 16), byte(p.bits >> 8), byte(p.bits)}
	return lpm.EncodeLPMKey(data[:width], lpm.PrefixLen(p.len))
}

func decodeKey(k []byte) pfx {
	data, l := lpm.DecodeLPMKey(k)
	var bits uint32
	for i := 0; i < 4; i++ {
		bits <<= 8
		if i < len(data) {
			bits |= uint32(data[i])
		}
	}
	return pfx{bits, uint8(l)}.masked()
}

type pv struct {
	p pfx
	v int
}

type trieVer struct {
	id    int
	trie  lpm.Trie[int]
	model map[pfx]int
}

type heldLPMIter struct {
	it     *lpm.Iterator[int]
	expect []pv
	pos    int
	what   string
}

type lpmWorld struct {
	c      *simcore.Choices
	r      *simcore.Recorder
	width  int
	maxLen int
	pool   []*trieVer
	txn    *lpm.Txn[int]
	tmodel map[pfx]int
	spare  *lpm.Txn[int]
	iters  []*heldLPMIter
	uni    []pfx
	nextID int
	probes map[string]int
	faults map[string]int
	prog   int
	states map[uint64]struct{}
}

func sortedPVs(m map[pfx]int) []pv {
	out := make([]pv, 0, len(m))
	for p, v := range m {
		out = append(out, pv{p, v})
	}
	sort.Slice(out, func(i, j int) bool { return pfxLess(out[i].p, out[j].p) })
	return out
}

func fmtPVs(es []pv) string {
	var b strings.Builder
	b.WriteByte('[')
	for i, e := range es {
		if i > 0 {
			b.WriteByte(' ')
		}
		fmt.Fprintf(&b, "%v=%d", e.p, e.v)
	}
	b.WriteByte(']')
	return b.String()
}

func samePVs(a, b []pv) bool {
	if len(a) != len(b) {
		return false
	}
	for i := range a {
		if a[i] != b[i] {
			return false
		}
	}
	return true
}

func drainLPM(it *lpm.Iterator[int]) []pv {
	var out []pv
	it.All(func(k []byte, v int) bool {
		out = append(out, pv{decodeKey(k), v})
		return true
	})
	return out
}

func mCovered(m map[pfx]int, q pfx) []pv {
	var out []pv
	for _, e := range sortedPVs(m) {
		if q.covers(e.p) {
			out = append(out, e)
		}
	}
	return out
}

func mLowerP(m map[pfx]int, q pfx) []pv {
	var out []pv
	qm := q.masked()
	for _, e := range sortedPVs(m) {
		if !pfxLess(e.p, qm) {
			out = append(out, e)
		}
	}
	return out
}

func mLongest(m map[pfx]int, q pfx) (pv, bool) {
	best := pv{}
	found := false
	for p, v := range m {
		if p.covers(q) && (!found || p.len > best.p.len) {
			best = pv{p, v}
			found = true
		}
	}
	return best, found
}

func clonePM(m map[pfx]int) map[pfx]int {
	c := make(map[pfx]int, len(m)+2)
	for k, v := range m {
		c[k] = v
	}
	return c
}

type lpmReader interface {
	Len() int
	Lookup(key index.Key) (int, bool)
	LookupExact(key index.Key) (int, bool)
	All() *lpm.Iterator[int]
	Prefix(key index.Key) *lpm.Iterator[int]
	LowerBound(key index.Key) *lpm.Iterator[int]
}

func (w *lpmWorld) anyPfx() pfx {
	c := w.c
	if c.Choose(3) != 0 {
		return w.uni[c.Choose(len(w.uni))]
	}
	// derived: ancestor, descendant, or divergence at a chosen bit of a universe prefix
	p := w.uni[c.Choose(len(w.uni))]
	switch c.Choose(3) {
	case 0:
		if p.len > 0 {
			return pfx{p.bits, uint8(c.Choose(int(p.len)))}.masked()
		}
	case 1:
		if int(p.len) < w.maxLen {
			l := int(p.len) + 1 + c.Choose(w.maxLen-int(p.len))
			rnd := uint32(c.Choose(1<<16))<<16 | uint32(c.Choose(1<<16))
			return pfx{p.bits | rnd&(uint32(0xffffffff)>>p.len), uint8(l)}.masked()
		}
	case 2:
		if p.len > 0 {
			bit := c.Choose(int(p.len))
			l := bit + 1 + c.Choose(w.maxLen-bit)
			return pfx{p.bits ^ (1 << (31 - uint(bit))), uint8(l)}.masked()
		}
	}
	return p
}

func (w *lpmWorld) fullKey() pfx {
	p := w.anyPfx()
	low := uint32(w.c.Choose(1 << 16))
	rest := uint32(0xffffffff) >> p.len
	return pfx{p.bits | (low*0x10001)&rest, uint8(w.maxLen)}.masked()
}

// checkReads compares queries on a trie or transaction with the model.
func (w *lpmWorld) checkReads(what string, t lpmReader, m map[pfx]int, n int) bool {
	c := w.c
	r := w.r
	if t.Len() != len(m) {
		r.Violate("C13", "len", "%s: Len()=%d want %d", what, t.Len(), len(m))
		return false
	}
	for i := 0; i < n; i++ {
		switch c.Choose(6) {
		case 0: // Lookup of a full-length key: longest stored prefix covering it
			q := w.fullKey()
			v, ok := t.Lookup(q.key(w.width))
			want, wok := mLongest(m, q)
			if ok != wok || (ok && v != want.v) {
				r.Violate("C13", "lookup", "%s: Lookup(%v)=(%d,%v) want (%d,%v) from %v", what, q, v, ok, want.v, wok, want.p)
				return false
			}
		case 1: // a stored prefix looks itself up
			es := sortedPVs(m)
			if len(es) == 0 {
				continue
			}
			e := es[c.Choose(len(es))]
			v, ok := t.Lookup(e.p.key(w.width))
			if !ok || v != e.v {
				r.Violate("C13", "lookup-self", "%s: Lookup(%v) of a stored prefix = (%d,%v) want (%d,true)", what, e.p, v, ok, e.v)
				return false
			}
		case 2:
			q := w.anyPfx()
			v, ok := t.LookupExact(q.key(w.width))
			mv, mok := m[q.masked()]
			if ok != mok || (ok && v != mv) {
				r.Violate("C13", "lookup-exact", "%s: LookupExact(%v)=(%d,%v) want (%d,%v)", what, q, v, ok, mv, mok)
				return false
			}
		case 3:
			q := w.anyPfx()
			got := drainLPM(t.Prefix(q.key(w.width)))
			if want := mCovered(m, q); !samePVs(got, want) {
				r.Violate("C13", "prefix", "%s: Prefix(%v)=%s want %s", what, q, fmtPVs(got), fmtPVs(want))
				return false
			}
		case 4:
			q := w.anyPfx()
			got := drainLPM(t.LowerBound(q.key(w.width)))
			if want := mLowerP(m, q); !samePVs(got, want) {
				r.Violate("C13", "lowerbound", "%s: LowerBound(%v)=%s want %s", what, q, fmtPVs(got), fmtPVs(want))
				return false
			}
		case 5:
			got := drainLPM(t.All())
			if want := sortedPVs(m); !samePVs(got, want) {
				r.Violate("C13", "all", "%s: All()=%s want %s", what, fmtPVs(got), fmtPVs(want))
				return false
			}
		}
	}
	return true
}

func (w *lpmWorld) step() bool {
	c := w.c
	r := w.r
	r.Steps++
	switch c.Weighted([]int{30, 6, 8, 5, 6}) {
	case 0: // transaction step
		if w.txn == nil {
			v := w.pool[c.Choose(len(w.pool))]
			if w.spare != nil && c.Choose(2) == 0 {
				// the reuse pattern of the LPM table index: Clear() after Commit, then Reuse(trie)
				w.txn = w.spare.Reuse(v.trie)
				w.spare = nil
				w.probes["txn-reused"]++
			} else {
				w.txn = v.trie.Txn()
			}
			w.tmodel = clonePM(v.model)
			r.Logf("txn on t%d", v.id)
			if v != w.pool[len(w.pool)-1] {
				w.probes["txn-on-old-version"]++
			}
			return true
		}
		w.nextID++
		val := w.nextID
		switch c.Weighted([]int{10, 7, 5, 2}) {
		case 0:
			p := w.anyPfx().masked()
			if err := w.txn.Insert(p.key(w.width), val); err != nil {
				r.Violate("C13", "insert-error", "Insert(%v): %v", p, err)
				return false
			}
			w.tmodel[p] = val
			r.Logf("txn Insert(%v)=%d", p, val)
		case 1:
			p := w.anyPfx().masked()
			es := sortedPVs(w.tmodel)
			if len(es) > 0 && c.Choose(3) != 0 {
				p = es[c.Choose(len(es))].p
			}
			v, ok := w.txn.Delete(p.key(w.width))
			mv, mok := w.tmodel[p]
			if ok != mok || (ok && v != mv) {
				r.Violate("C13", "delete", "Delete(%v)=(%d,%v) want (%d,%v)", p, v, ok, mv, mok)
				return false
			}
			delete(w.tmodel, p)
			r.Logf("txn Delete(%v) found=%v", p, ok)
		case 2:
			return w.checkReads("open transaction", w.txn, w.tmodel, 3)
		case 3: // iterator inside the transaction, consumed after later writes
			if len(w.iters) < 8 {
				q := w.anyPfx()
				switch c.Choose(3) {
				case 0:
					w.iters = append(w.iters, &heldLPMIter{it: w.txn.All(), expect: sortedPVs(w.tmodel), what: "txn.All()"})
				case 1:
					w.iters = append(w.iters, &heldLPMIter{it: w.txn.Prefix(q.key(w.width)), expect: mCovered(w.tmodel, q), what: fmt.Sprintf("txn.Prefix(%v)", q)})
				case 2:
					w.iters = append(w.iters, &heldLPMIter{it: w.txn.LowerBound(q.key(w.width)), expect: mLowerP(w.tmodel, q), what: fmt.Sprintf("txn.LowerBound(%v)", q)})
				}
				w.probes["iterator-inside-txn"]++
			}
		}
	case 1: // finish
		if w.txn == nil {
			return true
		}
		if c.Choose(4) == 0 {
			r.Logf("txn abandoned")
			w.faults["abandon"]++
			w.txn = nil
			return true
		}
		t := w.txn.Commit()
		nv := &trieVer{id: w.nextID, trie: t, model: w.tmodel}
		w.nextID++
		if c.Choose(2) == 0 {
			w.txn.Clear()
			w.spare = w.txn
		}
		w.txn = nil
		if len(w.pool) >= 8 {
			i := c.Choose(len(w.pool) - 1)
			w.pool = append(w.pool[:i], w.pool[i+1:]...)
		}
		w.pool = append(w.pool, nv)
		w.prog++
		r.Logf("txn Commit -> t%d (%d entries)", nv.id, len(nv.model))
		return w.checkReads(fmt.Sprintf("t%d", nv.id), &nv.trie, nv.model, 3)
	case 2: // re-read a held version
		v := w.pool[c.Choose(len(w.pool))]
		if v != w.pool[len(w.pool)-1] {
			w.probes["old-version-reread"]++
		}
		return w.checkReads(fmt.Sprintf("t%d (held version)", v.id), &v.trie, v.model, 4)
	case 3: // hold an iterator of a version
		if len(w.iters) >= 8 {
			return true
		}
		v := w.pool[c.Choose(len(w.pool))]
		q := w.anyPfx()
		switch c.Choose(3) {
		case 0:
			w.iters = append(w.iters, &heldLPMIter{it: v.trie.All(), expect: sortedPVs(v.model), what: fmt.Sprintf("t%d.All()", v.id)})
		case 1:
			w.iters = append(w.iters, &heldLPMIter{it: v.trie.Prefix(q.key(w.width)), expect: mCovered(v.model, q), what: fmt.Sprintf("t%d.Prefix(%v)", v.id, q)})
		case 2:
			w.iters = append(w.iters, &heldLPMIter{it: v.trie.LowerBound(q.key(w.width)), expect: mLowerP(v.model, q), what: fmt.Sprintf("t%d.LowerBound(%v)", v.id, q)})
		}
	case 4: // advance a held iterator
		if len(w.iters) == 0 {
			return true
		}
		i := c.Choose(len(w.iters))
		hi := w.iters[i]
		n := 1 + c.Choose(3)
		if c.Choose(3) == 0 {
			// All on a held (possibly advanced) iterator yields what is left and leaves the iterator as it
			// was: the Next calls below, and a second All, see the same elements again
			for pass := 0; pass < 1+c.Choose(2); pass++ {
				got := drainLPM(hi.it)
				want := hi.expect[hi.pos:]
				if fmtPVs(got) != fmtPVs(want) {
					r.Violate("C13", "held-iterator", "%s: All() (read %d) on the iterator after %d Next calls yields %s, want %s", hi.what, pass+1, hi.pos, fmtPVs(got), fmtPVs(want))
					return false
				}
			}
			w.probes["held-iterator-all"]++
		}
		for j := 0; j < n; j++ {
			k, v, ok := hi.it.Next()
			if hi.pos >= len(hi.expect) {
				if ok {
					r.Violate("C13", "held-iterator", "%s yields extra (%v,%d) after %d elements; want %s", hi.what, decodeKey(k), v, hi.pos, fmtPVs(hi.expect))
					return false
				}
				w.iters = append(w.iters[:i], w.iters[i+1:]...)
				w.probes["held-iterator-finished"]++
				return true
			}
			if !ok || decodeKey(k) != hi.expect[hi.pos].p || v != hi.expect[hi.pos].v {
				var got string
				if ok {
					got = fmt.Sprintf("(%v,%d)", decodeKey(k), v)
				} else {
					got = "end"
				}
				r.Violate("C13", "held-iterator", "%s element %d is %s, want %s", hi.what, hi.pos, got, fmtPVs(hi.expect))
				return false
			}
			hi.pos++
		}
	}
	return true
}

func pfxUniverse(c *simcore.Choices, maxLen int) []pfx {
	base := uint32(c.Choose(1<<16))<<16 | uint32(c.Choose(1<<16))
	var out []pfx
	seen := map[pfx]bool{}
	add := func(p pfx) {
		if int(p.len) > maxLen {
			p.len = uint8(maxLen)
		}
		m := p.masked()
		if !seen[m] {
			seen[m] = true
			out = append(out, m)
		}
	}
	add(pfx{base, 0})
	for _, l := range []uint8{1, 2, 7, 8, 9, 15, 16, 17, 23, 24, 25, 31, 32} {
		add(pfx{base, l})
	}
	n := 4 + c.Choose(10)
	for i := 0; i < n; i++ {
		bit := c.Choose(maxLen)
		l := bit + 1 + c.Choose(maxLen-bit)
		add(pfx{base ^ (1 << (31 - uint(bit))), uint8(l)})
	}
	add(pfx{base ^ 1<<(32-uint(maxLen)), uint8(maxLen)})
	add(pfx{^base, uint8(maxLen)})
	add(pfx{^base, 3})
	add(pfx{0, uint8(maxLen)})
	add(pfx{0xffffffff, uint8(maxLen)})
	return out
}
