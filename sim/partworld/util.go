package partworld

import (
	"regexp"
	"strings"
)

var hexRe = regexp.MustCompile(`0x[0-9a-f]+\??|\+0x[0-9a-f]+`)

// stackOf keeps the frames of the code under test and removes addresses so
// that the violation detail is a function of the choice stream only.
func stackOf(s string) string {
	var keep []string
	for _, l := range strings.Split(s, "\n") {
		if strings.Contains(l, "statedb") || strings.Contains(l, "panic") {
			keep = append(keep, strings.TrimSpace(l))
		}
		if len(keep) > 10 {
			break
		}
	}
	return hexRe.ReplaceAllString(strings.Join(keep, " | "), "0x?")
}
