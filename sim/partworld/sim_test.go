package partworld

import (
	"testing"

	"verif/sim/simcore"
)

func TestSim(t *testing.T) {
	simcore.WorkerMain(t, "partworld", Run)
}
