// Package partworld simulates logical callers sharing persistent structure:
// part.Tree / Txn / Iterator (C11, C12), lpm.Trie (C13), part.Map / part.Set
// (C17). These packages have no locks, timers or I/O; what is simulated is the
// seeded interleaving, at API-call granularity, of a writer with holders of
// earlier versions, clones, iterators and watch channels, with abandoned
// transactions as the fault.
package partworld

import (
	"fmt"
	"runtime"
	"sort"
	"testing"

	"github.com/cilium/statedb/lpm"
	"github.com/cilium/statedb/part"

	"verif/sim/simcore"
)

func trim(s string) string {
	if len(s) > 1500 {
		return s[:1500]
	}
	return s
}

// Run executes one run of partworld for the given property.
func Run(t *testing.T, prop, tier string, c *simcore.Choices, full bool) (res *simcore.RunResult) {
	res = &simcore.RunResult{}
	r := simcore.NewRecorder(full)
	steps := 60 + c.Choose(200)
	if tier == "thorough" {
		steps = 100 + c.Choose(500)
	}
	var probes, faults map[string]int
	var prog *int
	var states map[uint64]struct{}
	var stepFn func() bool
	desc := ""
	switch prop {
	case "C11", "C12":
		w := &treeWorld{c: c, r: r, prop: prop, open: map[int]*treeTxn{}, probes: map[string]int{}, faults: map[string]int{}, states: map[uint64]struct{}{}, rootOnly: map[int]bool{}}
		w.keys = keyUniverse(c)
		nl := 1 + c.Choose(2)
		for l := 0; l < nl; l++ {
			var tr part.Tree[int]
			mode := "per-node"
			if (l == 1) != (c.Choose(2) == 0) {
				tr = part.New[int](part.RootOnlyWatch)
				mode = "root-only"
				w.rootOnly[l] = true
			} else {
				tr = part.New[int]()
			}
			w.addVer(tr, map[string]int{}, l)
			desc += fmt.Sprintf(" lineage%d=%s", l, mode)
		}
		desc += fmt.Sprintf(" keys=%d", len(w.keys))
		probes, faults, prog, states = w.probes, w.faults, &w.prog, w.states
		stepFn = func() bool {
			ok := w.step()
			if ok {
				ok = w.pollWatches("a step")
			}
			if r.Steps%4 == 0 {
				w.recordState()
			}
			return ok
		}
	case "C13":
		w := &lpmWorld{c: c, r: r, probes: map[string]int{}, faults: map[string]int{}, states: map[uint64]struct{}{}}
		w.width, w.maxLen = 4, 32
		if c.Choose(3) == 0 {
			w.width, w.maxLen = 2, 16
		}
		w.uni = pfxUniverse(c, w.maxLen)
		w.pool = []*trieVer{{id: 0, trie: lpm.New[int](), model: map[pfx]int{}}}
		w.nextID = 1
		desc = fmt.Sprintf(" width=%d prefixes=%d", w.width, len(w.uni))
		probes, faults, prog, states = w.probes, w.faults, &w.prog, w.states
		stepFn = func() bool {
			ok := w.step()
			if r.Steps%4 == 0 {
				h := uint64(1469598103934665603)
				for _, e := range sortedPVs(w.pool[len(w.pool)-1].model) {
					h ^= uint64(e.p.bits)<<8 | uint64(e.p.len)
					h *= 1099511628211
				}
				h ^= uint64(len(w.pool))
				w.states[h] = struct{}{}
			}
			return ok
		}
	case "C17":
		w := &msWorld{c: c, r: r, probes: map[string]int{}, faults: map[string]int{}, states: map[uint64]struct{}{}}
		w.keys = msKeys(c)
		w.addMap(part.Map[string, int]{}, map[string]int{})
		w.addSet(part.Set[string]{}, map[string]int{})
		desc = fmt.Sprintf(" keys=%d", len(w.keys))
		probes, faults, prog, states = w.probes, w.faults, &w.prog, w.states
		stepFn = func() bool {
			ok := w.step()
			if r.Steps%4 == 0 {
				h := uint64(1469598103934665603)
				for _, e := range sortedKVs(w.maps[len(w.maps)-1].model) {
					for _, b := range []byte(e.k) {
						h ^= uint64(b)
						h *= 1099511628211
					}
				}
				h ^= uint64(len(w.maps))<<8 | uint64(len(w.sets))
				w.states[h] = struct{}{}
			}
			return ok
		}
	default:
		res.Harness = "partworld: unknown property " + prop
		return res
	}
	res.Desc = "prop=" + prop + desc + fmt.Sprintf(" steps=%d", steps)

	func() {
		defer func() {
			if p := recover(); p != nil {
				buf := make([]byte, 4096)
				n := runtime.Stack(buf, false)
				r.Violate(prop, "panic", "panic: %v\n%s", p, trim(stackOf(string(buf[:n]))))
			}
		}()
		for i := 0; i < steps; i++ {
			if !stepFn() || r.Failed() {
				break
			}
		}
	}()

	res.Log = r.Log
	res.LogHash = r.Hash()
	res.Stats.Steps = r.Steps
	if v := r.Violation(); v != nil {
		if v.Property == prop {
			res.Violation = v
		} else {
			res.Foreign = append(res.Foreign, *v)
		}
	}
	res.Choices = c.Trace
	res.Probes = probes
	res.Faults = faults
	res.Progress = *prog
	for h := range states {
		res.StateHash = append(res.StateHash, h)
	}
	sort.Slice(res.StateHash, func(i, j int) bool { return res.StateHash[i] < res.StateHash[j] })
	return res
}
