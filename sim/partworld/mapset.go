package partworld

import (
	"encoding/json"
	"fmt"
	"reflect"
	"sort"
	"strings"

	"github.com/cilium/statedb/part"
	"go.yaml.in/yaml/v3"

	"verif/sim/simcore"
)

type mapVal struct {
	id    int
	m     part.Map[string, int]
	model map[string]int
}

type setVal struct {
	id    int
	s     part.Set[string]
	model map[string]int // value ignored
}

type mapTxnCtx struct {
	txn       part.MapTxn[string, int]
	model     map[string]int
	committed int // number of Commit() calls so far
}

type msWorld struct {
	c      *simcore.Choices
	r      *simcore.Recorder
	maps   []*mapVal
	sets   []*setVal
	txn    *mapTxnCtx
	keys   []string
	nextID int
	probes map[string]int
	faults map[string]int
	prog   int
	states map[uint64]struct{}
}

func printable(m map[string]int) bool {
	for k := range m {
		for i := 0; i < len(k); i++ {
			if k[i] < 0x20 || k[i] > 0x7e {
				return false
			}
		}
	}
	return true
}

func collect2(seq func(yield func(string, int) bool), limit int) []kv {
	var out []kv
	seq(func(k string, v int) bool {
		out = append(out, kv{k, v})
		return limit == 0 || len(out) < limit
	})
	return out
}

func (w *msWorld) key() string { return w.keys[w.c.Choose(len(w.keys))] }

func (w *msWorld) qkey() string {
	k := w.key()
	switch w.c.Choose(4) {
	case 0:
		if len(k) > 0 {
			return k[:w.c.Choose(len(k))]
		}
	case 1:
		return k + "a"
	}
	return k
}

func (w *msWorld) addMap(m part.Map[string, int], model map[string]int) *mapVal {
	v := &mapVal{id: w.nextID, m: m, model: model}
	w.nextID++
	if len(w.maps) >= 16 {
		i := w.c.Choose(len(w.maps))
		w.maps = append(w.maps[:i], w.maps[i+1:]...)
	}
	w.maps = append(w.maps, v)
	switch len(model) {
	case 0:
		w.probes["map-empty"]++
	case 1:
		w.probes["map-singleton"]++
	default:
		w.probes["map-tree"]++
	}
	return v
}

func (w *msWorld) addSet(s part.Set[string], model map[string]int) *setVal {
	v := &setVal{id: w.nextID, s: s, model: model}
	w.nextID++
	if len(w.sets) >= 16 {
		i := w.c.Choose(len(w.sets))
		w.sets = append(w.sets[:i], w.sets[i+1:]...)
	}
	w.sets = append(w.sets, v)
	return v
}

type mapReader interface {
	Get(string) (int, bool)
	Len() int
}

// checkMap reads a map value (or map transaction) back against its model.
func (w *msWorld) checkMapReads(what string, get func(string) (int, bool), length func() int,
	all, prefix, lower func(q string) func(yield func(string, int) bool), m map[string]int, n int) bool {
	r := w.r
	c := w.c
	if length() != len(m) {
		r.Violate("C17", "map-len", "%s: Len()=%d want %d", what, length(), len(m))
		return false
	}
	for i := 0; i < n; i++ {
		q := w.qkey()
		limit := 0
		if c.Choose(4) == 0 {
			limit = 1 + c.Choose(3)
			w.probes["early-break"]++
		}
		cut := func(es []kv) []kv {
			if limit > 0 && len(es) > limit {
				return es[:limit]
			}
			return es
		}
		switch c.Choose(4) {
		case 0:
			v, ok := get(q)
			mv, mok := m[q]
			if ok != mok || (ok && v != mv) {
				r.Violate("C17", "map-get", "%s: Get(%q)=(%d,%v) want (%d,%v)", what, q, v, ok, mv, mok)
				return false
			}
		case 1:
			got := collect2(all(""), limit)
			if want := cut(sortedKVs(m)); !sameKVs(got, want) {
				r.Violate("C17", "map-all", "%s: All()=%s want %s", what, fmtKVs(got), fmtKVs(want))
				return false
			}
		case 2:
			got := collect2(prefix(q), limit)
			if want := cut(mPrefix(m, q)); !sameKVs(got, want) {
				r.Violate("C17", "map-prefix", "%s: Prefix(%q)=%s want %s", what, q, fmtKVs(got), fmtKVs(want))
				return false
			}
		case 3:
			got := collect2(lower(q), limit)
			if want := cut(mLower(m, q)); !sameKVs(got, want) {
				r.Violate("C17", "map-lowerbound", "%s: LowerBound(%q)=%s want %s", what, q, fmtKVs(got), fmtKVs(want))
				return false
			}
		}
	}
	return true
}

func (w *msWorld) checkMap(v *mapVal, n int) bool {
	m := v.m
	return w.checkMapReads(fmt.Sprintf("map m%d", v.id), m.Get, m.Len,
		func(string) func(func(string, int) bool) { return m.All() },
		func(q string) func(func(string, int) bool) { return m.Prefix(q) },
		func(q string) func(func(string, int) bool) { return m.LowerBound(q) }, v.model, n)
}

func (w *msWorld) checkSet(v *setVal, n int) bool {
	r := w.r
	c := w.c
	if v.s.Len() != len(v.model) {
		r.Violate("C17", "set-len", "set s%d: Len()=%d want %d", v.id, v.s.Len(), len(v.model))
		return false
	}
	for i := 0; i < n; i++ {
		if c.Choose(2) == 0 {
			q := w.qkey()
			_, want := v.model[q]
			if got := v.s.Has(q); got != want {
				r.Violate("C17", "set-has", "set s%d: Has(%q)=%v want %v", v.id, q, got, want)
				return false
			}
			continue
		}
		limit := 0
		if c.Choose(3) == 0 {
			limit = 1 + c.Choose(2)
			w.probes["early-break"]++
		}
		var got []string
		func() {
			defer func() {
				if p := recover(); p != nil {
					r.Violate("C17", "set-all-panic", "set s%d: breaking out of All() after %d elements panicked: %v", v.id, limit, p)
				}
			}()
			for x := range v.s.All() {
				got = append(got, x)
				if limit > 0 && len(got) >= limit {
					break
				}
			}
		}()
		if r.Failed() {
			return false
		}
		var want []string
		for _, e := range sortedKVs(v.model) {
			want = append(want, e.k)
		}
		if limit > 0 && len(want) > limit {
			want = want[:limit]
		}
		if strings.Join(got, "\x1f") != strings.Join(want, "\x1f") || len(got) != len(want) {
			r.Violate("C17", "set-all", "set s%d: All()=%q want %q", v.id, got, want)
			return false
		}
	}
	return true
}

func modelEqualKeys(a, b map[string]int) bool {
	if len(a) != len(b) {
		return false
	}
	for k := range a {
		if _, ok := b[k]; !ok {
			return false
		}
	}
	return true
}

func modelEqual(a, b map[string]int) bool {
	if len(a) != len(b) {
		return false
	}
	for k, v := range a {
		if w, ok := b[k]; !ok || w != v {
			return false
		}
	}
	return true
}

func (w *msWorld) step() bool {
	c := w.c
	r := w.r
	r.Steps++
	w.nextID++
	val := w.nextID
	switch c.Weighted([]int{12, 8, 5, 10, 5, 6, 6, 5, 6, 4, 4, 4, 3}) {
	case 0: // Map.Set on any earlier value (branching)
		v := w.maps[c.Choose(len(w.maps))]
		k := w.key()
		nm := cloneMap(v.model)
		nm[k] = val
		nv := w.addMap(v.m.Set(k, val), nm)
		r.Logf("m%d = m%d.Set(%q,%d)", nv.id, v.id, k, val)
		w.prog++
		return w.checkMap(nv, 2) && w.checkMap(v, 1)
	case 1: // Map.Delete
		v := w.maps[c.Choose(len(w.maps))]
		k := w.key()
		if len(v.model) > 0 && c.Choose(3) != 0 {
			ks := sortedKVs(v.model)
			k = ks[c.Choose(len(ks))].k
		}
		nm := cloneMap(v.model)
		delete(nm, k)
		nv := w.addMap(v.m.Delete(k), nm)
		r.Logf("m%d = m%d.Delete(%q)", nv.id, v.id, k)
		w.prog++
		return w.checkMap(nv, 2) && w.checkMap(v, 1)
	case 2: // FromMap
		v := w.maps[c.Choose(len(w.maps))]
		n := c.Choose(4)
		fill := len(w.keys) >= 18 && c.Choose(2) == 0 // fan-out universe: take every key at once
		if fill {
			n = len(w.keys)
			w.probes["frommap-whole-universe"]++
		}
		hm := map[string]int{}
		// colliding with existing keys on purpose
		for i := 0; i < n; i++ {
			k := w.key()
			if fill {
				k = w.keys[i]
			} else if len(v.model) > 0 && c.Choose(2) == 0 {
				ks := sortedKVs(v.model)
				k = ks[c.Choose(len(ks))].k
			}
			hm[k] = val*10 + i
		}
		nm := cloneMap(v.model)
		for k, x := range hm {
			nm[k] = x
		}
		nv := w.addMap(part.FromMap(v.m, hm), nm)
		r.Logf("m%d = FromMap(m%d, %d entries)", nv.id, v.id, len(hm))
		if len(v.model) == 1 && len(hm) >= 2 {
			w.probes["frommap-onto-singleton"]++
		}
		w.prog++
		return w.checkMap(nv, 3) && w.checkMap(v, 1)
	case 3: // map transaction step
		if w.txn == nil {
			v := w.maps[c.Choose(len(w.maps))]
			w.txn = &mapTxnCtx{txn: v.m.Txn(), model: cloneMap(v.model)}
			r.Logf("MapTxn on m%d", v.id)
			return true
		}
		tx := w.txn
		switch c.Weighted([]int{8, 5, 4, 5, 1}) {
		case 0:
			k := w.key()
			tx.txn.Set(k, val)
			tx.model[k] = val
			r.Logf("txn.Set(%q,%d)", k, val)
		case 1:
			k := w.key()
			if len(tx.model) > 0 && c.Choose(3) != 0 {
				ks := sortedKVs(tx.model)
				k = ks[c.Choose(len(ks))].k
			}
			_, want := tx.model[k]
			if got := tx.txn.Delete(k); got != want {
				r.Violate("C17", "maptxn-delete", "MapTxn.Delete(%q)=%v want %v", k, got, want)
				return false
			}
			delete(tx.model, k)
			r.Logf("txn.Delete(%q)", k)
		case 2:
			t := tx.txn
			return w.checkMapReads("map transaction", t.Get, t.Len,
				func(string) func(func(string, int) bool) { return t.All() },
				func(q string) func(func(string, int) bool) { return t.Prefix(q) },
				func(q string) func(func(string, int) bool) { return t.LowerBound(q) }, tx.model, 3)
		case 3: // Commit; the transaction can be used again for further modifications
			nv := w.addMap(tx.txn.Commit(), cloneMap(tx.model))
			tx.committed++
			r.Logf("m%d = txn.Commit() (#%d)", nv.id, tx.committed)
			if tx.committed > 1 {
				w.probes["maptxn-reused-after-commit"]++
			}
			w.prog++
			return w.checkMap(nv, 3)
		case 4: // drop the transaction
			w.txn = nil
			w.faults["maptxn-dropped"]++
			r.Logf("txn dropped")
		}
	case 4: // re-read any earlier map value
		v := w.maps[c.Choose(len(w.maps))]
		return w.checkMap(v, 4)
	case 5: // equality predicates
		a := w.maps[c.Choose(len(w.maps))]
		b := w.maps[c.Choose(len(w.maps))]
		if got, want := a.m.EqualKeys(b.m), modelEqualKeys(a.model, b.model); got != want {
			r.Violate("C17", "map-equalkeys", "m%d.EqualKeys(m%d)=%v want %v (%s vs %s)", a.id, b.id, got, want, fmtKVs(sortedKVs(a.model)), fmtKVs(sortedKVs(b.model)))
			return false
		}
		if got, want := a.m.SlowEqual(b.m), modelEqual(a.model, b.model); got != want {
			r.Violate("C17", "map-slowequal", "m%d.SlowEqual(m%d)=%v want %v (%s vs %s)", a.id, b.id, got, want, fmtKVs(sortedKVs(a.model)), fmtKVs(sortedKVs(b.model)))
			return false
		}
		if modelEqual(a.model, b.model) && a != b {
			w.probes["equal-distinct-values"]++
		}
	case 6: // Set.Set / Set.Delete
		v := w.sets[c.Choose(len(w.sets))]
		k := w.key()
		nm := cloneMap(v.model)
		var nv *setVal
		if c.Choose(2) == 0 {
			nm[k] = 1
			nv = w.addSet(v.s.Set(k), nm)
			r.Logf("s%d = s%d.Set(%q)", nv.id, v.id, k)
		} else {
			if len(v.model) > 0 && c.Choose(3) != 0 {
				ks := sortedKVs(v.model)
				k = ks[c.Choose(len(ks))].k
			}
			delete(nm, k)
			nv = w.addSet(v.s.Delete(k), nm)
			r.Logf("s%d = s%d.Delete(%q)", nv.id, v.id, k)
		}
		w.prog++
		return w.checkSet(nv, 2) && w.checkSet(v, 1)
	case 7: // NewSet / Union / Difference
		a := w.sets[c.Choose(len(w.sets))]
		b := w.sets[c.Choose(len(w.sets))]
		nm := cloneMap(a.model)
		var nv *setVal
		switch c.Choose(3) {
		case 0:
			for k := range b.model {
				nm[k] = 1
			}
			nv = w.addSet(a.s.Union(b.s), nm)
			r.Logf("s%d = s%d.Union(s%d)", nv.id, a.id, b.id)
		case 1:
			for k := range b.model {
				delete(nm, k)
			}
			nv = w.addSet(a.s.Difference(b.s), nm)
			r.Logf("s%d = s%d.Difference(s%d)", nv.id, a.id, b.id)
		case 2:
			n := c.Choose(4)
			var vals []string
			nm = map[string]int{}
			for i := 0; i < n; i++ {
				k := w.key()
				vals = append(vals, k)
				nm[k] = 1
			}
			nv = w.addSet(part.NewSet(vals...), nm)
			r.Logf("s%d = NewSet(%q)", nv.id, vals)
		}
		w.prog++
		return w.checkSet(nv, 3) && w.checkSet(a, 1) && w.checkSet(b, 1)
	case 8: // re-read any earlier set, equality
		a := w.sets[c.Choose(len(w.sets))]
		b := w.sets[c.Choose(len(w.sets))]
		if got, want := a.s.Equal(b.s), modelEqualKeys(a.model, b.model); got != want {
			r.Violate("C17", "set-equal", "s%d.Equal(s%d)=%v want %v", a.id, b.id, got, want)
			return false
		}
		return w.checkSet(a, 3)
	case 9: // JSON round trip of a map
		v := w.maps[c.Choose(len(w.maps))]
		if !printable(v.model) {
			return true
		}
		bs, err := json.Marshal(v.m)
		if err != nil {
			r.Violate("C17", "map-json", "marshal m%d: %v", v.id, err)
			return false
		}
		var out part.Map[string, int]
		if err := json.Unmarshal(bs, &out); err != nil {
			r.Violate("C17", "map-json", "unmarshal %s: %v", bs, err)
			return false
		}
		nv := w.addMap(out, cloneMap(v.model))
		w.probes["map-json-roundtrip"]++
		if !out.SlowEqual(v.m) || !v.m.SlowEqual(out) {
			r.Violate("C17", "map-json", "m%d JSON round trip %s decodes to an unequal map", v.id, bs)
			return false
		}
		if !w.richRoundTrip(r, v, true) {
			return false
		}
		return w.checkMap(nv, 3)
	case 10: // YAML round trip of a map
		v := w.maps[c.Choose(len(w.maps))]
		if !printable(v.model) {
			return true
		}
		bs, err := yaml.Marshal(v.m)
		if err != nil {
			r.Violate("C17", "map-yaml", "marshal m%d: %v", v.id, err)
			return false
		}
		var out part.Map[string, int]
		if err := yaml.Unmarshal(bs, &out); err != nil {
			r.Violate("C17", "map-yaml", "unmarshal %q: %v", bs, err)
			return false
		}
		nv := w.addMap(out, cloneMap(v.model))
		w.probes["map-yaml-roundtrip"]++
		if !out.SlowEqual(v.m) {
			r.Violate("C17", "map-yaml", "m%d YAML round trip %q decodes to an unequal map", v.id, bs)
			return false
		}
		if !w.richRoundTrip(r, v, false) {
			return false
		}
		return w.checkMap(nv, 3)
	case 12: // maps and sets keyed by other registered key types
		return w.typedKeys()
	case 11: // JSON / YAML round trip of a set
		v := w.sets[c.Choose(len(w.sets))]
		if !printable(v.model) {
			return true
		}
		var out part.Set[string]
		if c.Choose(2) == 0 {
			bs, err := json.Marshal(v.s)
			if err == nil {
				err = json.Unmarshal(bs, &out)
			}
			if err != nil {
				r.Violate("C17", "set-json", "s%d: %v", v.id, err)
				return false
			}
			w.probes["set-json-roundtrip"]++
		} else {
			bs, err := yaml.Marshal(v.s)
			if err == nil {
				err = yaml.Unmarshal(bs, &out)
			}
			if err != nil {
				r.Violate("C17", "set-yaml", "s%d: %v", v.id, err)
				return false
			}
			w.probes["set-yaml-roundtrip"]++
		}
		nv := w.addSet(out, cloneMap(v.model))
		if !out.Equal(v.s) || !v.s.Equal(out) {
			r.Violate("C17", "set-roundtrip", "s%d round trip decodes to an unequal set", v.id)
			return false
		}
		return w.checkSet(nv, 3)
	}
	return true
}

func msKeys(c *simcore.Choices) []string {
	var out []string
	switch c.Choose(4) {
	case 3:
		// fan-out under a key that holds a value itself: enough one-byte keys to cross the node sizes
		// (4, 16, 48) in both directions, plus the empty key
		n := 17 + c.Choose(40)
		for i := 0; i < n; i++ {
			out = append(out, string([]byte{byte(7 + i*4)}))
		}
		out = append(out, "")
	case 0:
		out = []string{"", "a", "b", "aa", "ab", "ba", "abc", "abd", "b0"}
	case 1:
		out = []string{"", "k", "k1", "k10", "k2", "key", "l", "\x00", "\xff", "a\x00b"}
	case 2:
		for i := 0; i < 6+c.Choose(14); i++ {
			out = append(out, fmt.Sprintf("%c%d", 'a'+byte(i%3), i))
		}
		out = append(out, "")
	}
	sort.Strings(out)
	return out
}

// richVal is a value type with the shapes a codec can get wrong when it reuses decode targets: slices,
// maps, pointers and optional fields.
type richVal struct {
	N int            `json:"n" yaml:"n"`
	L []int          `json:"l,omitempty" yaml:"l,omitempty"`
	M map[string]int `json:"m,omitempty" yaml:"m,omitempty"`
	P *int           `json:"p,omitempty" yaml:"p,omitempty"`
	O string         `json:"o,omitempty" yaml:"o,omitempty"`
}

func richOf(k string, n int) richVal {
	v := richVal{N: n}
	if n%2 == 0 {
		v.L = []int{n, n + 1, len(k)}
	}
	if n%3 == 0 {
		v.M = map[string]int{k: n, "x": 1}
	}
	if n%5 < 2 {
		p := n * 7
		v.P = &p
	}
	if n%4 == 1 {
		v.O = "o" + k
	}
	return v
}

// richRoundTrip encodes the map's contents with structured values and decodes them again: "any value" in
// the property covers value types holding references and optional fields.
func (w *msWorld) richRoundTrip(r *simcore.Recorder, v *mapVal, useJSON bool) bool {
	var m part.Map[string, richVal]
	keys := make([]string, 0, len(v.model))
	for k := range v.model {
		keys = append(keys, k)
	}
	sort.Strings(keys)
	for _, k := range keys {
		m = m.Set(k, richOf(k, v.model[k]))
	}
	var out part.Map[string, richVal]
	var bs []byte
	var err error
	kind := "map-yaml-rich"
	if useJSON {
		kind = "map-json-rich"
		if bs, err = json.Marshal(m); err == nil {
			err = json.Unmarshal(bs, &out)
		}
	} else {
		if bs, err = yaml.Marshal(m); err == nil {
			err = yaml.Unmarshal(bs, &out)
		}
	}
	if err != nil {
		r.Violate("C17", kind, "m%d with structured values: %v", v.id, err)
		return false
	}
	w.probes[kind+"-roundtrip"]++
	if out.Len() != len(keys) {
		r.Violate("C17", kind, "m%d with structured values: %q decodes to %d entries, want %d", v.id, bs, out.Len(), len(keys))
		return false
	}
	i := 0
	for k, got := range out.All() {
		if i >= len(keys) || k != keys[i] {
			r.Violate("C17", kind, "m%d with structured values: %q decodes to key %q at position %d", v.id, bs, k, i)
			return false
		}
		if want := richOf(k, v.model[k]); !reflect.DeepEqual(got, want) {
			r.Violate("C17", kind, "m%d with structured values: %q decodes key %q to %+v, want %+v", v.id, bs, k, got, want)
			return false
		}
		i++
	}
	for _, k := range keys {
		got, ok := out.Get(k)
		if want := richOf(k, v.model[k]); !ok || !reflect.DeepEqual(got, want) {
			r.Violate("C17", kind, "m%d with structured values: after decoding %q Get(%q)=%+v,%v want %+v", v.id, bs, k, got, ok, want)
			return false
		}
	}
	return true
}

// int32 keys that are valid, invalid and boundary code points when misread as runes, and negative numbers
var i32Keys = []int32{0, 1, 65, -1, -2, 0xD7FF, 0xD800, 0xDFFF, 0xE000, 0xFFFD, 0x10FFFF, 0x110000, 1 << 30, -1 << 31}
var u16Keys = []uint16{0, 1, 255, 256, 257, 0xfffe, 0xffff}

// typedKeys runs a short history on a map and a set keyed by a fixed-width integer type: the collection must
// behave as the mathematical map/set over those keys, ordered by the key's big-endian bytes.
func (w *msWorld) typedKeys() bool {
	c := w.c
	r := w.r
	w.probes["typed-keys"]++
	if c.Choose(2) == 0 {
		var m part.Map[int32, int]
		var s part.Set[int32]
		model := map[int32]int{}
		var olds []part.Map[int32, int]
		var oldModels []map[int32]int
		n := 2 + c.Choose(10)
		for i := 0; i < n; i++ {
			k := i32Keys[c.Choose(len(i32Keys))]
			if c.Choose(4) == 0 {
				m = m.Delete(k)
				s = s.Delete(k)
				delete(model, k)
			} else {
				m = m.Set(k, i)
				s = s.Set(k)
				model[k] = i
			}
			olds = append(olds, m)
			cp := map[int32]int{}
			for a, b := range model {
				cp[a] = b
			}
			oldModels = append(oldModels, cp)
		}
		check := func(what string, m part.Map[int32, int], model map[int32]int) bool {
			if m.Len() != len(model) {
				r.Violate("C17", "typed-len", "%s: Map[int32].Len()=%d want %d (keys %v)", what, m.Len(), len(model), model)
				return false
			}
			for _, k := range i32Keys {
				v, ok := m.Get(k)
				mv, mok := model[k]
				if ok != mok || (ok && v != mv) {
					r.Violate("C17", "typed-get", "%s: Map[int32].Get(%d)=(%d,%v) want (%d,%v)", what, k, v, ok, mv, mok)
					return false
				}
			}
			var got []int32
			for k := range m.All() {
				got = append(got, k)
			}
			want := make([]int32, 0, len(model))
			for k := range model {
				want = append(want, k)
			}
			sort.Slice(want, func(i, j int) bool { return uint32(want[i]) < uint32(want[j]) })
			if fmt.Sprint(got) != fmt.Sprint(want) {
				r.Violate("C17", "typed-all", "%s: Map[int32].All() yields keys %v want %v", what, got, want)
				return false
			}
			return true
		}
		for i := range olds {
			if !check(fmt.Sprintf("int32 map after %d of %d writes", i+1, n), olds[i], oldModels[i]) {
				return false
			}
		}
		if s.Len() != len(model) {
			r.Violate("C17", "typed-len", "Set[int32].Len()=%d want %d (members %v)", s.Len(), len(model), model)
			return false
		}
		for _, k := range i32Keys {
			if _, want := model[k]; s.Has(k) != want {
				r.Violate("C17", "typed-has", "Set[int32].Has(%d)=%v want %v", k, !want, want)
				return false
			}
		}
		bs, err := json.Marshal(m)
		var out part.Map[int32, int]
		if err == nil {
			err = json.Unmarshal(bs, &out)
		}
		if err != nil {
			r.Violate("C17", "typed-json", "Map[int32] JSON: %v", err)
			return false
		}
		return check(fmt.Sprintf("int32 map decoded from %s", bs), out, model)
	}
	var m part.Map[uint16, int]
	model := map[uint16]int{}
	n := 2 + c.Choose(8)
	for i := 0; i < n; i++ {
		k := u16Keys[c.Choose(len(u16Keys))]
		if c.Choose(4) == 0 {
			m = m.Delete(k)
			delete(model, k)
		} else {
			m = m.Set(k, i)
			model[k] = i
		}
	}
	if m.Len() != len(model) {
		r.Violate("C17", "typed-len", "Map[uint16].Len()=%d want %d (keys %v)", m.Len(), len(model), model)
		return false
	}
	var got []uint16
	for k, v := range m.All() {
		got = append(got, k)
		if model[k] != v {
			r.Violate("C17", "typed-get", "Map[uint16] yields %d=%d want %d", k, v, model[k])
			return false
		}
	}
	if !sort.SliceIsSorted(got, func(i, j int) bool { return got[i] < got[j] }) || len(got) != len(model) {
		r.Violate("C17", "typed-all", "Map[uint16].All() yields keys %v for %v", got, model)
		return false
	}
	return true
}
