package partworld

import (
	"bytes"
	"fmt"
	"sort"
	"strings"

	"github.com/cilium/statedb/part"

	"verif/sim/simcore"
)

type kv struct {
	k string
	v int
}

// ver is one tree version held in the pool.
type ver struct {
	id            int
	tree          part.Tree[int]
	model         map[string]int
	lineage       int
	notifiedFrom  bool            // a notified transaction has been derived from this version
	notifiedChild *ver            // the version that transaction produced
	childChanged  map[string]bool // keys that transaction inserted, replaced or deleted
	noWatch       bool            // produced without notification: shares channels with its base in ways the chain model does not track
}

type treeTxn struct {
	txn     *part.Txn[int]
	base    *ver
	model   map[string]int
	changed map[string]bool
	lastIW  map[string]<-chan struct{} // channel of the last InsertWatch/ModifyWatch per key (if it was the last write to the key)
	canNote bool
	ops     int
	pend    []*treeWatch // watch channels obtained through the open transaction
	clog    []string     // keys changed, in order
}

type heldIter struct {
	it     part.Iterator[int]
	expect []kv
	pos    int
	what   string
}

type heldAll struct {
	fn     func(yield func([]byte, int) bool)
	expect []kv
	what   string
}

const (
	wRoot = iota
	wGet
	wPrefix
	wInsert
)

type treeWatch struct {
	id     int
	ch     <-chan struct{}
	origin *ver
	kind   int
	key    string
	closed bool
	// obtained through an open transaction that was later committed and notified: origin is the version it
	// produced; selfAny tells whether that transaction changed anything (then its own notification may close
	// the channel)
	fromTxn bool
	selfAny bool
	at      int  // number of changes the transaction had made at the hand-out
	selfHit bool // Txn.Prefix only: the transaction changed a key under the prefix after the hand-out
}

type treeWorld struct {
	c        *simcore.Choices
	r        *simcore.Recorder
	prop     string
	pool     []*ver
	open     map[int]*treeTxn // per lineage
	iters    []*heldIter
	alls     []*heldAll
	watches  []*treeWatch
	keys     []string
	next     int
	nextID   int
	probes   map[string]int
	faults   map[string]int
	prog     int
	states   map[uint64]struct{}
	rootOnly map[int]bool
}

func sortedKVs(m map[string]int) []kv {
	out := make([]kv, 0, len(m))
	for k, v := range m {
		out = append(out, kv{k, v})
	}
	sort.Slice(out, func(i, j int) bool { return out[i].k < out[j].k })
	return out
}

func mPrefix(m map[string]int, p string) []kv {
	var out []kv
	for _, e := range sortedKVs(m) {
		if strings.HasPrefix(e.k, p) {
			out = append(out, e)
		}
	}
	return out
}

func mLower(m map[string]int, k string) []kv {
	var out []kv
	for _, e := range sortedKVs(m) {
		if e.k >= k {
			out = append(out, e)
		}
	}
	return out
}

func fmtKVs(es []kv) string {
	var b strings.Builder
	b.WriteByte('[')
	for i, e := range es {
		if i > 0 {
			b.WriteByte(' ')
		}
		fmt.Fprintf(&b, "%q=%d", e.k, e.v)
	}
	b.WriteByte(']')
	return b.String()
}

func sameKVs(a, b []kv) bool {
	if len(a) != len(b) {
		return false
	}
	for i := range a {
		if a[i] != b[i] {
			return false
		}
	}
	return true
}

func cloneMap(m map[string]int) map[string]int {
	c := make(map[string]int, len(m)+2)
	for k, v := range m {
		c[k] = v
	}
	return c
}

func kb(s string) []byte { return append([]byte(nil), s...) }

func drain(it part.Iterator[int]) []kv {
	var out []kv
	for k, v := range it.All {
		out = append(out, kv{string(k), v})
	}
	return out
}

func (w *treeWorld) key() string { return w.keys[w.c.Choose(len(w.keys))] }

// queryKey draws a key, prefix of a key or neighbour of a key.
func (w *treeWorld) queryKey() string {
	k := w.key()
	switch w.c.Choose(5) {
	case 0:
		if len(k) > 0 {
			return k[:w.c.Choose(len(k))]
		}
	case 1:
		return k + "\x00"
	case 2:
		if len(k) > 0 {
			b := []byte(k)
			b[len(b)-1]++
			return string(b)
		}
	}
	return k
}

func (w *treeWorld) probe(s string) { w.probes[s]++ }

// checkOps compares every read operation of ops (a Tree or a Txn) with the model.
func (w *treeWorld) checkOps(what string, ops part.Ops[int], m map[string]int, n int) bool {
	c := w.c
	if ops.Len() != len(m) {
		w.r.Violate("C11", "len", "%s: Len()=%d want %d", what, ops.Len(), len(m))
		return false
	}
	for i := 0; i < n; i++ {
		q := w.queryKey()
		switch c.Choose(5) {
		case 0:
			v, _, ok := ops.Get(kb(q))
			mv, mok := m[q]
			if ok != mok || (ok && v != mv) {
				w.r.Violate("C11", "get", "%s: Get(%q)=(%d,%v) want (%d,%v)", what, q, v, ok, mv, mok)
				return false
			}
		case 1:
			it, _ := ops.Prefix(kb(q))
			got := drain(it)
			if want := mPrefix(m, q); !sameKVs(got, want) {
				w.r.Violate("C11", "prefix", "%s: Prefix(%q)=%s want %s", what, q, fmtKVs(got), fmtKVs(want))
				return false
			}
		case 2:
			got := drain(ops.LowerBound(kb(q)))
			if want := mLower(m, q); !sameKVs(got, want) {
				w.r.Violate("C11", "lowerbound", "%s: LowerBound(%q)=%s want %s", what, q, fmtKVs(got), fmtKVs(want))
				return false
			}
		case 4:
			var all func(yield func([]byte, int) bool)
			switch o := ops.(type) {
			case *part.Tree[int]:
				all = o.All
			case *part.Txn[int]:
				all = o.All
			default:
				continue
			}
			var got []kv
			all(func(k []byte, v int) bool { got = append(got, kv{string(k), v}); return true })
			if want := sortedKVs(m); !sameKVs(got, want) {
				w.r.Violate("C11", "all", "%s: All()=%s want %s", what, fmtKVs(got), fmtKVs(want))
				return false
			}
		case 3:
			got := drain(ops.Iterator())
			if want := sortedKVs(m); !sameKVs(got, want) {
				w.r.Violate("C11", "iterate", "%s: Iterator()=%s want %s", what, fmtKVs(got), fmtKVs(want))
				return false
			}
		}
	}
	return true
}

func (w *treeWorld) addVer(t part.Tree[int], m map[string]int, lineage int) *ver {
	v := &ver{id: w.nextID, tree: t, model: m, lineage: lineage}
	w.nextID++
	if len(w.pool) >= 10 {
		// keep the newest and a random sample of older versions
		i := w.c.Choose(len(w.pool) - 1)
		w.pool = append(w.pool[:i], w.pool[i+1:]...)
	}
	w.pool = append(w.pool, v)
	return v
}

// chainChanged walks the notified transactions derived (transitively) from origin.
func chainChanged(origin *ver, match func(changed map[string]bool) bool) (must bool, anyChange bool) {
	for v := origin; v != nil && v.notifiedChild != nil; v = v.notifiedChild {
		if len(v.childChanged) > 0 {
			anyChange = true
		}
		if match(v.childChanged) {
			must = true
		}
	}
	return
}

// pollWatches evaluates the watch-channel rules after every step (C12).
func (w *treeWorld) pollWatches(step string) bool {
	for _, tx := range w.openSorted() {
		for _, tw := range tx.pend {
			select {
			case <-tw.ch:
				w.r.Violate("C12", "closed-before-notify", "after %s: a watch channel for %q obtained through a still open transaction (derived from tree version %d) is closed before any Notify", step, tw.key, tx.base.id)
				return false
			default:
			}
		}
	}
	for _, tw := range w.watches {
		closed := false
		select {
		case <-tw.ch:
			closed = true
		default:
		}
		var match func(ch map[string]bool) bool
		switch tw.kind {
		case wRoot:
			match = func(ch map[string]bool) bool { return len(ch) > 0 }
		case wGet, wInsert:
			match = func(ch map[string]bool) bool { return ch[tw.key] }
		case wPrefix:
			match = func(ch map[string]bool) bool {
				for k := range ch {
					if strings.HasPrefix(k, tw.key) {
						return true
					}
				}
				return false
			}
		}
		must, anyChange := chainChanged(tw.origin, match)
		if tw.fromTxn && tw.selfAny {
			anyChange = true
			if tw.kind == wRoot || tw.selfHit {
				// Txn.RootWatch is the root channel of the tree the transaction started from
				must = true
			}
		}
		kind := [...]string{"root", "Get", "Prefix", "InsertWatch"}[tw.kind]
		if tw.fromTxn {
			kind = "Txn." + kind
		}
		if must && !closed {
			w.r.Violate("C12", "not-closed", "after %s: the %s(%q) watch channel obtained from tree version %d is still open although a committed and notified transaction changed it", step, kind, tw.key, tw.origin.id)
			return false
		}
		if closed && !tw.closed {
			tw.closed = true
			allowed := must
			if tw.kind != wRoot && anyChange {
				allowed = true // over-closing on a change is allowed for key and prefix channels
			}
			if !allowed {
				w.r.Violate("C12", "spurious-close", "after %s: the %s(%q) watch channel obtained from tree version %d is closed although no notified transaction derived from that version changed anything relevant", step, kind, tw.key, tw.origin.id)
				return false
			}
			w.probe("watch-closed-" + kind)
		}
	}
	return true
}

func (w *treeWorld) addWatch(ch <-chan struct{}, origin *ver, kind int, key string) {
	if ch == nil {
		w.r.Violate("C12", "nil-watch", "nil watch channel returned")
		return
	}
	if len(w.watches) >= 40 {
		w.watches = w.watches[1:]
	}
	w.watches = append(w.watches, &treeWatch{id: w.next, ch: ch, origin: origin, kind: kind, key: key})
	w.next++
}

func (w *treeWorld) recordState() {
	h := uint64(1469598103934665603)
	for _, v := range w.pool {
		for _, e := range sortedKVs(v.model) {
			for _, b := range []byte(e.k) {
				h ^= uint64(b)
				h *= 1099511628211
			}
			h ^= uint64(e.v)
			h *= 1099511628211
		}
		h ^= 0xabcd
		h *= 1099511628211
	}
	w.states[h] = struct{}{}
}

// step performs one actor step.
func (w *treeWorld) step() bool {
	c := w.c
	r := w.r
	r.Steps++
	// collect open transactions in lineage order
	var lin []int
	for l := range w.open {
		lin = append(lin, l)
	}
	sort.Ints(lin)

	action := c.Weighted([]int{30, 8, 6, 6, 5, 5, 4, 6})
	switch action {
	case 0: // transaction step: open one or operate on an open one
		v := w.pool[c.Choose(len(w.pool))]
		tx := w.open[v.lineage]
		if tx == nil {
			tx = &treeTxn{txn: v.tree.Txn(), base: v, model: cloneMap(v.model), changed: map[string]bool{}, lastIW: map[string]<-chan struct{}{}, canNote: !v.notifiedFrom}
			w.open[v.lineage] = tx
			r.Logf("txn open on v%d (lineage %d, notify allowed %v)", v.id, v.lineage, tx.canNote)
			if v != w.newest(v.lineage) {
				w.probe("txn-on-old-version")
			}
			return true
		}
		return w.txnOp(tx)
	case 1: // finish an open transaction
		if len(lin) == 0 {
			return true
		}
		l := lin[c.Choose(len(lin))]
		return w.finish(l, w.open[l])
	case 2: // one-shot operation on a pooled version
		v := w.pool[c.Choose(len(w.pool))]
		if v.notifiedFrom || w.open[v.lineage] != nil {
			return true
		}
		k := w.key()
		m := cloneMap(v.model)
		changed := map[string]bool{}
		var nt part.Tree[int]
		w.nextID++
		val := w.nextID * 10
		switch c.Choose(3) {
		case 0:
			old, had, t := v.tree.Insert(kb(k), val)
			mo, mh := m[k]
			if had != mh || (had && old != mo) {
				r.Violate("C11", "insert-old", "Tree.Insert(%q) on v%d returned (%d,%v) want (%d,%v)", k, v.id, old, had, mo, mh)
				return false
			}
			m[k] = val
			changed[k] = true
			nt = t
			r.Logf("v%d.Insert(%q)=%d", v.id, k, val)
		case 1:
			old, had, t := v.tree.Modify(kb(k), val, func(o, n int) int { return o + n })
			mo, mh := m[k]
			if had != mh || (had && old != mo) {
				r.Violate("C11", "modify-old", "Tree.Modify(%q) on v%d returned (%d,%v) want (%d,%v)", k, v.id, old, had, mo, mh)
				return false
			}
			m[k] = mo + val
			changed[k] = true
			nt = t
			r.Logf("v%d.Modify(%q)+=%d", v.id, k, val)
		case 2:
			old, had, t := v.tree.Delete(kb(k))
			mo, mh := m[k]
			if had != mh || (had && old != mo) {
				r.Violate("C11", "delete-old", "Tree.Delete(%q) on v%d returned (%d,%v) want (%d,%v)", k, v.id, old, had, mo, mh)
				return false
			}
			if mh {
				delete(m, k)
				changed[k] = true
			} else {
				w.probe("delete-absent")
			}
			nt = t
			r.Logf("v%d.Delete(%q) had=%v", v.id, k, had)
		}
		nv := w.addVer(nt, m, v.lineage)
		v.notifiedFrom = true
		v.notifiedChild = nv
		v.childChanged = changed
		w.prog++
		return w.checkOps(fmt.Sprintf("v%d (one-shot result)", nv.id), &nv.tree, nv.model, 2)
	case 3: // re-read a pooled version (persistence)
		v := w.pool[c.Choose(len(w.pool))]
		if v != w.newest(v.lineage) {
			w.probe("old-version-reread")
		}
		return w.checkOps(fmt.Sprintf("v%d (held version)", v.id), &v.tree, v.model, 3)
	case 4: // take an iterator from a version and hold it
		v := w.pool[c.Choose(len(w.pool))]
		if len(w.iters) >= 8 {
			return true
		}
		q := w.queryKey()
		var hi *heldIter
		switch c.Choose(3) {
		case 0:
			hi = &heldIter{it: v.tree.Iterator(), expect: sortedKVs(v.model), what: fmt.Sprintf("v%d.Iterator()", v.id)}
		case 1:
			it, _ := v.tree.Prefix(kb(q))
			hi = &heldIter{it: it, expect: mPrefix(v.model, q), what: fmt.Sprintf("v%d.Prefix(%q)", v.id, q)}
		case 2:
			hi = &heldIter{it: v.tree.LowerBound(kb(q)), expect: mLower(v.model, q), what: fmt.Sprintf("v%d.LowerBound(%q)", v.id, q)}
		}
		w.iters = append(w.iters, hi)
		if c.Choose(3) == 0 && len(w.alls) < 4 {
			w.alls = append(w.alls, &heldAll{fn: v.tree.All, expect: sortedKVs(v.model), what: fmt.Sprintf("v%d.All", v.id)})
		}
	case 5: // advance a held iterator
		if len(w.iters) == 0 {
			return true
		}
		i := c.Choose(len(w.iters))
		hi := w.iters[i]
		n := 1 + c.Choose(3)
		for j := 0; j < n; j++ {
			k, v, ok := hi.it.Next()
			if hi.pos >= len(hi.expect) {
				if ok {
					r.Violate("C11", "held-iterator", "%s yields extra (%q,%d) after %d elements; want %s", hi.what, k, v, hi.pos, fmtKVs(hi.expect))
					return false
				}
				w.iters = append(w.iters[:i], w.iters[i+1:]...)
				w.probe("held-iterator-finished")
				return true
			}
			if !ok || string(k) != hi.expect[hi.pos].k || v != hi.expect[hi.pos].v {
				r.Violate("C11", "held-iterator", "%s element %d is (%q,%d,%v), want %s", hi.what, hi.pos, k, v, ok, fmtKVs(hi.expect))
				return false
			}
			hi.pos++
		}
		// All() on the iterator value yields the remainder without consuming
		if c.Choose(3) == 0 {
			got := drain(hi.it)
			if !sameKVs(got, hi.expect[hi.pos:]) {
				r.Violate("C11", "held-iterator", "%s All() after %d Next() yields %s, want %s", hi.what, hi.pos, fmtKVs(got), fmtKVs(hi.expect[hi.pos:]))
				return false
			}
		}
	case 6: // consume a held All closure
		if len(w.alls) == 0 {
			return true
		}
		i := c.Choose(len(w.alls))
		ha := w.alls[i]
		var got []kv
		limit := 0
		if c.Choose(2) == 0 && len(ha.expect) > 0 {
			limit = 1 + c.Choose(len(ha.expect))
		}
		ha.fn(func(k []byte, v int) bool {
			got = append(got, kv{string(k), v})
			return limit == 0 || len(got) < limit
		})
		want := ha.expect
		if limit > 0 && limit < len(want) {
			want = want[:limit]
		}
		if !sameKVs(got, want) {
			r.Violate("C11", "held-all", "%s yields %s, want %s", ha.what, fmtKVs(got), fmtKVs(want))
			return false
		}
		if c.Choose(2) == 0 {
			w.alls = append(w.alls[:i], w.alls[i+1:]...)
		}
	case 7: // obtain watch channels from a version
		v := w.pool[c.Choose(len(w.pool))]
		if v.noWatch {
			return true
		}
		q := w.queryKey()
		switch c.Choose(3) {
		case 0:
			w.addWatch(v.tree.RootWatch(), v, wRoot, "")
		case 1:
			_, ch, _ := v.tree.Get(kb(q))
			w.addWatch(ch, v, wGet, q)
			if _, ok := v.model[q]; !ok {
				w.probe("watch-absent-key")
			}
		case 2:
			_, ch := v.tree.Prefix(kb(q))
			w.addWatch(ch, v, wPrefix, q)
		}
	}
	return true
}

func (w *treeWorld) newest(lineage int) *ver {
	var n *ver
	for _, v := range w.pool {
		if v.lineage == lineage {
			n = v
		}
	}
	return n
}

func (w *treeWorld) txnOp(tx *treeTxn) bool {
	c := w.c
	r := w.r
	tx.ops++
	k := w.key()
	w.nextID++
	val := w.nextID * 10
	switch c.Weighted([]int{10, 3, 5, 2, 8, 6, 3, 3, 3, 3, 4}) {
	case 8: // burst of inserts: grows nodes past every size threshold within one transaction
		n := 5 + c.Choose(60)
		deep := len(w.keys) > 34 && strings.HasPrefix(w.keys[len(w.keys)-4], "zzzzzzzz")
		if deep {
			n = len(w.keys) // a deep chain is filled completely
			w.probe("deep-chain-filled")
		}
		for i := 0; i < n; i++ {
			k := w.key()
			if deep {
				k = w.keys[i]
			}
			w.nextID++
			v := w.nextID * 10
			old, had := tx.txn.Insert(kb(k), v)
			mo, mh := tx.model[k]
			if had != mh || (had && old != mo) {
				r.Violate("C11", "insert-old", "Txn.Insert(%q) (burst) returned (%d,%v) want (%d,%v)", k, old, had, mo, mh)
				return false
			}
			tx.model[k] = v
			tx.changed[k] = true
			tx.clog = append(tx.clog, k)
			delete(tx.lastIW, k)
		}
		w.probe("insert-burst")
		r.Logf("txn insert burst of %d", n)
		return w.checkOps("open transaction after insert burst", tx.txn, tx.model, 2)
	case 9: // burst of deletes: shrinks nodes below every size threshold within one transaction
		ks := sortedKVs(tx.model)
		if len(ks) == 0 {
			return true
		}
		n := 1 + c.Choose(len(ks))
		for i := 0; i < n; i++ {
			ks = sortedKVs(tx.model)
			if len(ks) == 0 {
				break
			}
			k := ks[c.Choose(len(ks))].k
			old, had := tx.txn.Delete(kb(k))
			if !had || old != tx.model[k] {
				r.Violate("C11", "delete-old", "Txn.Delete(%q) (burst) returned (%d,%v) want (%d,true)", k, old, had, tx.model[k])
				return false
			}
			delete(tx.model, k)
			tx.changed[k] = true
			tx.clog = append(tx.clog, k)
			delete(tx.lastIW, k)
			if i%7 == 6 && !w.checkOps("open transaction inside delete burst", tx.txn, tx.model, 1) {
				return false
			}
		}
		w.probe("delete-burst")
		r.Logf("txn delete burst of %d", n)
		return w.checkOps("open transaction after delete burst", tx.txn, tx.model, 2)
	case 0, 1: // Insert / InsertWatch
		var old int
		var had bool
		var ch <-chan struct{}
		mo, mh := tx.model[k]
		if c.Choose(3) == 0 {
			old, had, ch = tx.txn.InsertWatch(kb(k), val)
			tx.lastIW[k] = ch
		} else {
			old, had = tx.txn.Insert(kb(k), val)
			delete(tx.lastIW, k)
		}
		if had != mh || (had && old != mo) {
			r.Violate("C11", "insert-old", "Txn.Insert(%q) returned (%d,%v) want (%d,%v)", k, old, had, mo, mh)
			return false
		}
		tx.model[k] = val
		tx.changed[k] = true
		tx.clog = append(tx.clog, k)
		r.Logf("txn Insert(%q)=%d had=%v", k, val, had)
	case 2, 3: // Modify / ModifyWatch
		var old, nv int
		var had bool
		mo, mh := tx.model[k]
		mod := func(o, n int) int { return o*3 + n }
		if c.Choose(3) == 0 {
			var ch <-chan struct{}
			old, nv, had, ch = tx.txn.ModifyWatch(kb(k), val, mod)
			tx.lastIW[k] = ch
		} else {
			old, nv, had = tx.txn.Modify(kb(k), val, mod)
			delete(tx.lastIW, k)
		}
		want := val
		if mh {
			want = mo*3 + val
		}
		if had != mh || (had && old != mo) || nv != want {
			r.Violate("C11", "modify-old", "Txn.Modify(%q) returned (old %d, new %d, %v) want (%d,%d,%v)", k, old, nv, had, mo, want, mh)
			return false
		}
		tx.model[k] = want
		tx.changed[k] = true
		tx.clog = append(tx.clog, k)
		r.Logf("txn Modify(%q)->%d had=%v", k, want, had)
	case 4: // Delete, biased to present keys
		if len(tx.model) > 0 && c.Choose(3) != 0 {
			ks := sortedKVs(tx.model)
			k = ks[c.Choose(len(ks))].k
		}
		old, had := tx.txn.Delete(kb(k))
		mo, mh := tx.model[k]
		if had != mh || (had && old != mo) {
			r.Violate("C11", "delete-old", "Txn.Delete(%q) returned (%d,%v) want (%d,%v)", k, old, had, mo, mh)
			return false
		}
		if mh {
			delete(tx.model, k)
			tx.changed[k] = true
			tx.clog = append(tx.clog, k)
		} else {
			w.probe("delete-absent")
		}
		delete(tx.lastIW, k)
		r.Logf("txn Delete(%q) had=%v", k, had)
	case 5: // reads inside the transaction
		return w.checkOps("open transaction", tx.txn, tx.model, 3)
	case 6: // clone: a Tree frozen at this point of the transaction
		cl := tx.txn.Clone()
		cv := &ver{id: w.nextID, tree: cl, model: cloneMap(tx.model), lineage: -1 - tx.base.lineage, notifiedFrom: true}
		w.nextID++
		// clones are for reading only: hold iterators/closures on them
		if len(w.iters) < 8 {
			w.iters = append(w.iters, &heldIter{it: cl.Iterator(), expect: sortedKVs(cv.model), what: fmt.Sprintf("clone%d.Iterator()", cv.id)})
		}
		if len(w.alls) < 4 {
			c2 := cl
			w.alls = append(w.alls, &heldAll{fn: c2.All, expect: sortedKVs(cv.model), what: fmt.Sprintf("clone%d.All", cv.id)})
		}
		w.probe("txn-cloned")
		r.Logf("txn Clone -> clone%d", cv.id)
		return w.checkOps(fmt.Sprintf("clone%d", cv.id), &cl, cv.model, 2)
	case 10: // watch channel obtained through the open transaction (C12)
		if !tx.canNote || len(tx.pend) >= 6 {
			return true
		}
		q := w.queryKey()
		var ch <-chan struct{}
		kind := wGet
		if sel := c.Choose(7); sel == 0 {
			kind = wRoot
			q = ""
			ch = tx.txn.RootWatch()
		} else if sel <= 2 {
			kind = wPrefix
			_, ch = tx.txn.Prefix(kb(q))
		} else {
			_, ch, _ = tx.txn.Get(kb(q))
			if _, ok := tx.model[q]; !ok {
				w.probe("txn-watch-absent-key")
			}
		}
		if ch == nil {
			r.Violate("C12", "nil-watch", "nil watch channel returned by the open transaction for %q", q)
			return false
		}
		select {
		case <-ch:
			r.Violate("C12", "closed-at-handout", "the %s(%q) watch channel handed out by the open transaction (derived from tree version %d, which no notified transaction was derived from yet) is already closed", [...]string{"root", "Get", "Prefix", "InsertWatch"}[kind], q, tx.base.id)
			return false
		default:
		}
		tx.pend = append(tx.pend, &treeWatch{id: w.next, ch: ch, kind: kind, key: q, fromTxn: true, at: len(tx.clog)})
		w.next++
		w.probe("watch-through-open-txn")
		r.Logf("txn watch %d(%q) obtained", kind, q)
	case 7: // iterator taken inside the transaction, consumed after later writes
		if len(w.iters) >= 8 {
			return true
		}
		q := w.queryKey()
		switch c.Choose(3) {
		case 0:
			w.iters = append(w.iters, &heldIter{it: tx.txn.Iterator(), expect: sortedKVs(tx.model), what: "txn.Iterator()"})
		case 1:
			it, _ := tx.txn.Prefix(kb(q))
			w.iters = append(w.iters, &heldIter{it: it, expect: mPrefix(tx.model, q), what: fmt.Sprintf("txn.Prefix(%q)", q)})
		case 2:
			w.iters = append(w.iters, &heldIter{it: tx.txn.LowerBound(kb(q)), expect: mLower(tx.model, q), what: fmt.Sprintf("txn.LowerBound(%q)", q)})
		}
		w.probe("iterator-inside-txn")
	}
	return true
}

func (w *treeWorld) finish(lineage int, tx *treeTxn) bool {
	c := w.c
	r := w.r
	delete(w.open, lineage)
	mode := c.Weighted([]int{5, 3, 2, 2})
	if !tx.canNote && (mode == 0 || mode == 1) {
		mode = 2
	}
	switch mode {
	case 3: // abandon
		r.Logf("txn abandoned after %d ops", tx.ops)
		w.probe("txn-abandoned")
		w.faults["abandon"]++
		return w.pollWatches("abandoning a transaction")
	case 2: // commit without notification
		t := tx.txn.Commit()
		nv := w.addVer(t, tx.model, lineage)
		// Only un-notified transactions are derived from an un-notified version, so that the
		// notified transactions form chains and the expected state of every channel is exact.
		nv.notifiedFrom = true
		nv.noWatch = true
		r.Logf("txn Commit (no notify) -> v%d", nv.id)
		w.prog++
		if !w.pollWatches("Commit without Notify") {
			return false
		}
		return w.checkOps(fmt.Sprintf("v%d", nv.id), &nv.tree, nv.model, 2)
	case 1: // Commit, then Notify as a separate step
		t := tx.txn.Commit()
		nv := w.addVer(t, tx.model, lineage)
		if !w.pollWatches("Commit (before Notify)") {
			return false
		}
		for _, tw := range tx.pend {
			select {
			case <-tw.ch:
				r.Violate("C12", "closed-before-notify", "a watch channel for %q obtained through the transaction is closed after Commit, before Notify", tw.key)
				return false
			default:
			}
		}
		tx.txn.Notify()
		w.link(tx, nv)
		r.Logf("txn Commit; Notify -> v%d changed=%d", nv.id, len(tx.changed))
	case 0:
		t := tx.txn.CommitAndNotify()
		nv := w.addVer(t, tx.model, lineage)
		w.link(tx, nv)
		r.Logf("txn CommitAndNotify -> v%d changed=%d", nv.id, len(tx.changed))
	}
	w.prog++
	nv := w.pool[len(w.pool)-1]
	if !w.pollWatches("Commit and Notify") {
		return false
	}
	return w.checkOps(fmt.Sprintf("v%d", nv.id), &nv.tree, nv.model, 2)
}

func (w *treeWorld) link(tx *treeTxn, nv *ver) {
	tx.base.notifiedFrom = true
	tx.base.notifiedChild = nv
	tx.base.childChanged = tx.changed
	// channels from InsertWatch/ModifyWatch belong to the new version
	var ks []string
	for k := range tx.lastIW {
		ks = append(ks, k)
	}
	sort.Strings(ks)
	for _, k := range ks {
		if _, ok := tx.model[k]; ok {
			origin := nv
			if w.rootOnly[tx.base.lineage] {
				// in root-only mode the channel handed out is the root channel of the tree the
				// transaction started from: it closes with this very transaction's notification
				origin = tx.base
			}
			w.addWatch(tx.lastIW[k], origin, wInsert, k)
			w.probe("insertwatch-registered")
		}
	}
	for _, tw := range tx.pend {
		tw.origin = nv
		tw.selfAny = len(tx.changed) > 0
		if tw.kind == wPrefix {
			// Txn.Prefix freezes the tree: whatever the transaction changes under the prefix afterwards
			// goes through fresh clones, so the channel handed out closes with the notification
			for _, k := range tx.clog[tw.at:] {
				if strings.HasPrefix(k, tw.key) {
					tw.selfHit = true
				}
			}
		}
		if len(w.watches) >= 40 {
			w.watches = w.watches[1:]
		}
		w.watches = append(w.watches, tw)
		w.probe("txn-watch-registered")
	}
	tx.pend = nil
	if len(tx.changed) == 0 {
		w.probe("notified-txn-without-change")
	}
}

func keyUniverse(c *simcore.Choices) []string {
	var out []string
	seen := map[string]bool{}
	add := func(s string) {
		if !seen[s] {
			seen[s] = true
			out = append(out, s)
		}
	}
	switch c.Choose(5) {
	case 4:
		// a chain of nested prefixes: every key is a prefix of the next, paths of 34-46 nodes (deeper than
		// any fixed-size path buffer of 32), plus a few branches off the chain
		n := 34 + c.Choose(13)
		for i := 0; i <= n; i++ {
			add(strings.Repeat("z", i))
		}
		add(strings.Repeat("z", n/2) + "a")
		add(strings.Repeat("z", n-1) + "a")
		add("a")
	case 0:
		for _, s := range []string{"", "a", "b", "aa", "ab", "ba", "bb", "aab", "abb", "aba", "baa", "abab", "aaaa", "c", "ca", "abc"} {
			add(s)
		}
	case 1:
		for _, s := range []string{"", "\x00", "\x01", "\xff", "\x00\x00", "\x00\x01", "\x01\x00", "\xff\x00", "\xff\xff", "a\x00", "a\x00b", "a", "\x00\xff"} {
			add(s)
		}
	case 2:
		// fan-out: enough siblings under one node to cross every size threshold, plus a second level
		base := c.Choose(256)
		n := 20 + c.Choose(60)
		for i := 0; i < n; i++ {
			add(string([]byte{byte(base + i*5)}))
		}
		for i := 0; i < 20; i++ {
			add(string([]byte{byte(base), byte(i * 13)}))
		}
		add("")
	case 3:
		p := strings.Repeat("q", 3+c.Choose(12))
		for _, s := range []string{"", "a", "b", "ab", "ba", "\x00", "aa", "abc", "c"} {
			add(p + s)
		}
		add("q")
		add("")
		add("r")
	}
	return out
}

var _ = bytes.Compare

func (w *treeWorld) openSorted() []*treeTxn {
	ls := make([]int, 0, len(w.open))
	for l := range w.open {
		ls = append(ls, l)
	}
	sort.Ints(ls)
	out := make([]*treeTxn, 0, len(ls))
	for _, l := range ls {
		out = append(out, w.open[l])
	}
	return out
}
