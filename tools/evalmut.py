#!/usr/bin/env python3
"""Apply a patch to /repo, run the quick checks of the given properties, undo the patch.

  tools/evalmut.py <patch.diff> <Cxx> [<Cyy> ...] [--tier quick] [--seed N]

Evidence and replay files of these runs go to a scratch directory, not to /verif/evidence.
Prints one line per property: DETECTED / MISSED (+ signature) and the wall time.
"""
import os, subprocess, sys, tempfile, time, shutil, re

def main():
    args = sys.argv[1:]
    tier, seed = "quick", "1"
    if "--tier" in args:
        i = args.index("--tier"); tier = args[i+1]; del args[i:i+2]
    if "--seed" in args:
        i = args.index("--seed"); seed = args[i+1]; del args[i:i+2]
    wt = None
    if "--worktree" in args:
        args.remove("--worktree")
        wt = tempfile.mkdtemp(prefix="evalwt-", dir="/tmp")
        os.rmdir(wt)
    patch, props = args[0], args[1:]
    if wt:
        return in_worktree(wt, patch, props, tier, seed)
    st = subprocess.run(["git", "-C", "/repo", "status", "--porcelain", "--untracked-files=no"], capture_output=True, text=True).stdout.strip()
    if st:
        print("refusing: /repo has local modifications:\n" + st); sys.exit(2)
    r = subprocess.run(["git", "-C", "/repo", "apply", os.path.abspath(patch)], capture_output=True, text=True)
    if r.returncode != 0:
        print("patch does not apply:", r.stderr); sys.exit(2)
    scratch = tempfile.mkdtemp(prefix="evalmut-")
    env = dict(os.environ, VERIF_EVIDENCE_DIR=os.path.join(scratch, "evidence"), VERIF_REPLAY_DIR=os.path.join(scratch, "replays"), VERIF_SEED=seed)
    try:
        for p in props:
            t0 = time.time()
            r = subprocess.run(["/verif/check", "run", p, "--tier", tier], capture_output=True, text=True, env=env)
            out = r.stdout
            sig = re.search(r"signature=(\S+)", out)
            det = re.search(r"detail: (.*)", out)
            summ = re.search(r"SUMMARY.*", out)
            status = {0: "MISSED", 1: "DETECTED"}.get(r.returncode, "ERROR(rc=%d)" % r.returncode)
            print("%s %s %s wall=%.0fs %s" % (p, status, sig.group(1) if sig else "", time.time()-t0, (det.group(1)[:300] if det else "")))
            if r.returncode not in (0, 1):
                print(out[-1500:])
            elif r.returncode == 0 and summ:
                print("   ", summ.group(0)[:300])
    finally:
        subprocess.run(["git", "-C", "/repo", "checkout", "--", "."], check=True)
        shutil.rmtree(scratch, ignore_errors=True)

def in_worktree(wt, patch, props, tier, seed):
    """Same evaluation against a scratch worktree of /repo's HEAD (leaves /repo's working tree alone)."""
    subprocess.run(["git", "-C", "/repo", "worktree", "add", "-q", "--detach", wt, "HEAD"], check=True)
    scratch = tempfile.mkdtemp(prefix="evalmut-")
    builddir = None
    try:
        r = subprocess.run(["git", "-C", wt, "apply", os.path.abspath(patch)], capture_output=True, text=True)
        if r.returncode != 0:
            print("patch does not apply:", r.stderr); sys.exit(2)
        env = dict(os.environ, VERIF_REPO=wt, VERIF_EVIDENCE_DIR=os.path.join(scratch, "evidence"), VERIF_REPLAY_DIR=os.path.join(scratch, "replays"), VERIF_SEED=seed)
        import hashlib
        builddir = os.path.join("/verif", ".build-" + hashlib.sha1(wt.encode()).hexdigest()[:10])
        for p in props:
            t0 = time.time()
            r = subprocess.run(["/verif/check", "run", p, "--tier", tier], capture_output=True, text=True, env=env)
            out = r.stdout
            sig = re.search(r"signature=(\S+)", out)
            det = re.search(r"detail: (.*)", out)
            summ = re.search(r"SUMMARY.*", out)
            status = {0: "MISSED", 1: "DETECTED"}.get(r.returncode, "ERROR(rc=%d)" % r.returncode)
            print("%s %s %s wall=%.0fs %s" % (p, status, sig.group(1) if sig else "", time.time()-t0, (det.group(1)[:300] if det else "")))
            if r.returncode not in (0, 1):
                print(out[-1500:])
            elif r.returncode == 0 and summ:
                print("   ", summ.group(0)[:300])
    finally:
        subprocess.run(["git", "-C", "/repo", "worktree", "remove", "--force", wt])
        subprocess.run(["git", "-C", "/repo", "worktree", "prune"])
        shutil.rmtree(scratch, ignore_errors=True)
        if builddir:
            shutil.rmtree(builddir, ignore_errors=True)


if __name__ == "__main__":
    main()
