#!/bin/bash
# regress_mutants.sh [out-file] [streams] : re-evaluates every kept change against the quick check of the
# property it targets, each in its own scratch worktree of /repo (tools/evalmut.py --worktree), several at a time.
# A MISSED under this load (the quick tier's wall cap cuts runs short) is to be re-run alone before it counts.
out=${1:-/tmp/regress.log}; streams=${2:-3}
cd /verif
: > $out
list=$(mktemp)
for d in seeded/C*; do id=$(basename $d); echo "$d/patch.diff ${id%-*}" >> $list; done
cat >> $list <<'EOL'
mutants/own-notify-before-store.patch C06
mutants/own-unlock-before-store.patch C05
mutants/own-root-before-locks.patch C05
mutants/own-skip-root-refresh.patch C05
mutants/own-no-lock-sorting.patch C10
mutants/own-gc-max-watermark.patch C08
mutants/own-gc-off-by-one.patch C08
mutants/own-keep-old-revision-entry.patch C04 C09
mutants/own-init-close-before-store.patch C19
mutants/own-watchset-drops-member.patch C20
mutants/own-status-insert-instead-of-cas.patch C15
mutants/own-backoff-not-reset.patch C16
mutants/own-demote-threshold.patch C11
mutants/own-txn-iterator-no-freeze.patch C11
mutants/own-clone-forgets-leaf-watch.patch C12
mutants/own-delete-rev-not-bumped.patch C07
mutants/own-clone-no-freeze.patch C03
mutants/revert-ad9862e.patch C05
mutants/revert-628e036.patch C04
mutants/revert-c55260b.patch C04
mutants/revert-2d7fa08.patch C01
mutants/revert-441e5a9.patch C02
mutants/revert-6cb0c86.patch C07
mutants/revert-369c0a1.patch C03
mutants/revert-a24dfc7.patch C17
mutants/revert-65b4f4c.patch C17
mutants/revert-7f8fa67.patch C17
mutants/revert-c4846bd.patch C16
EOL
run() {
  set -- $1
  p=$1; shift
  res=$(tools/evalmut.py --worktree $p "$@" 2>&1 | grep -v "^    SUMMARY" | grep "DETECTED\|MISSED\|does not apply\|ERROR" | cut -c1-160 | tr '\n' ';')
  echo "$p :: $res" >> $out
}
export -f run; export out
cat $list | xargs -P $streams -I{} bash -c 'run "{}"'
rm -f $list
echo DONE >> $out
