#!/bin/bash
# regress_mutants.sh [out-file] : re-evaluates every kept change against the quick check of the property it
# targets (sequentially: each is applied to /repo, checked, and reverted). Do not run checks against /repo meanwhile.
out=${1:-/tmp/regress.log}
: > $out
run() { # patch props...
  p=$1; shift
  res=$(tools/evalmut.py $p "$@" 2>&1 | grep -v "^    SUMMARY" | grep "DETECTED\|MISSED\|does not apply" | cut -c1-160 | tr '\n' ';')
  echo "$(basename $(dirname $p))/$(basename $p) :: $res" >> $out
}
for d in seeded/C*; do id=$(basename $d); run $d/patch.diff ${id%-*}; done
run mutants/own-notify-before-store.patch C06
run mutants/own-unlock-before-store.patch C05
run mutants/own-root-before-locks.patch C05
run mutants/own-skip-root-refresh.patch C05
run mutants/own-no-lock-sorting.patch C10
run mutants/own-gc-max-watermark.patch C08
run mutants/own-gc-off-by-one.patch C08
run mutants/own-keep-old-revision-entry.patch C04 C09
run mutants/own-init-close-before-store.patch C19
run mutants/own-watchset-drops-member.patch C20
run mutants/own-status-insert-instead-of-cas.patch C15
run mutants/own-backoff-not-reset.patch C16
run mutants/own-demote-threshold.patch C11
run mutants/own-txn-iterator-no-freeze.patch C11
run mutants/own-clone-forgets-leaf-watch.patch C12
run mutants/own-delete-rev-not-bumped.patch C07
run mutants/own-clone-no-freeze.patch C03
run mutants/revert-ad9862e.patch C05
run mutants/revert-628e036.patch C04
run mutants/revert-c55260b.patch C04
run mutants/revert-2d7fa08.patch C01
run mutants/revert-441e5a9.patch C02
run mutants/revert-6cb0c86.patch C07
run mutants/revert-369c0a1.patch C03
run mutants/revert-a24dfc7.patch C17
run mutants/revert-65b4f4c.patch C17
run mutants/revert-7f8fa67.patch C17
run mutants/revert-c4846bd.patch C16
git -C /repo status --short >> $out
echo DONE >> $out
