#!/bin/bash
# soak.sh <seed> <tier> <props...> : build once, then run the given checks without rebuilding
# (so that patches applied to /repo meanwhile do not leak in); evidence/replays go to ./soak-out.
# SOAK_MAXSEC caps the wall time per property (default: the tier's own cap).
seed=$1; tier=$2; shift 2
./check setup || exit 2
mkdir -p soak-out
extra=""
[ -n "$SOAK_MAXSEC" ] && extra="--maxsec $SOAK_MAXSEC"
for p in "$@"; do
  VERIF_SEED=$seed VERIF_EVIDENCE_DIR=$PWD/soak-out/evidence VERIF_REPLAY_DIR=$PWD/soak-out/replays ./check run $p --tier $tier --no-build $extra 2>&1 | grep "SEED\|SUMMARY\|VIOLATION\|HARNESS\|KNOWN\|signature\|detail" | cut -c1-700
done
