#!/bin/bash
# validate_mutant.sh <id>   e.g. C01-a
# Confirms in a scratch worktree: demo passes without the change, fails with it; existing suite passes with it.
set -u
id=$1
export GOFLAGS=-mod=mod GOPROXY=off GOSUMDB=off GOTOOLCHAIN=local
src=/tmp/mut/$id; out=/tmp/mut/out/$id; wt=/tmp/val/$id
rm -rf $wt; mkdir -p /tmp/val
git -C /repo worktree add -q --detach $wt HEAD || exit 2
cd $wt
# demo files = untracked files in the agent's worktree
demos=$(git -C $src status --porcelain | grep '^??' | awk '{print $2}' | grep '_test.go$')
pkgs=""
for d in $demos; do mkdir -p $(dirname $d); cp $src/$d $d; pkgs="$pkgs ./$(dirname $d)"; done
pkgs=$(echo $pkgs | tr ' ' '\n' | sort -u | tr '\n' ' ')
tags=""
if grep -l "go:build verif" $demos >/dev/null 2>&1; then tags="-tags verif"; fi
names=$(grep -h "^func Test" $demos | sed 's/func \(Test[A-Za-z0-9_]*\).*/\1/' | paste -sd'|')
res="id=$id demos=[$(echo $demos)] tests=$names"
go1.26.8 test $tags -vet=off -count=1 -run "^($names)\$" $pkgs > $out/val_demo_without.log 2>&1; a=$?
git apply $out/patch.diff || { echo "$res PATCH-DOES-NOT-APPLY"; exit 1; }
go1.26.8 test $tags -vet=off -count=1 -run "^($names)\$" $pkgs > $out/val_demo_with.log 2>&1; b=$?
go1.26.8 build ./... && go1.26.8 build -tags verif ./... ; c=$?
go1.26.8 test -vet=off -count=1 -skip "^($names)\$" ./... > $out/val_suite_with.log 2>&1; s=$?
if [ $s -ne 0 ]; then go1.26.8 test -vet=off -count=1 -skip "^($names)\$" ./... > $out/val_suite_with2.log 2>&1; s=$?; fi
echo "$res demo_without=$a(want 0) demo_with=$b(want !=0) build=$c suite_with=$s(want 0)"
cd /; git -C /repo worktree remove --force $wt
